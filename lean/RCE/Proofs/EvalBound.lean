import RCE.Proofs.EvalSym
import RCE.Proofs.RefineGen
import RCE.Proofs.SearchDefs
import RCE.Model.Search
/-! The hypothesis `EvalBoundedFrom` of the search theorems, discharged for chess: the "promote-everything"
    material (`potential`: every pawn counted as a queen) never increases along generated moves, and the
    evaluation is bounded by it. -/
namespace RCE.Proofs.EvalBound
open RCE Gen RCE.Search RCE.Proofs.SearchDefs RCE.Proofs.BoardBits RCE.Proofs.BoardWF RCE.Proofs.BoardPBB
  RCE.Proofs.BoardGen RCE.Proofs.BoardMake RCE.Proofs.RefineGen RCE.Proofs.PopcountBswap RCE.Proofs.EvalSym

/-! ### popcount under single-bit updates -/

/-- two words that agree except possibly at bit `j` -/
theorem sumInd_update (x y : BB) (j : Nat) (n : Nat)
    (h : ∀ i, i < n → i ≠ j → testBit y i = testBit x i) :
    sumInd y n + (if j < n then ind x j else 0) = sumInd x n + (if j < n then ind y j else 0) := by
  induction n with
  | zero => simp [sumInd]
  | succ n ih =>
    have ih := ih (fun i hi hne => h i (by omega) hne)
    simp only [sumInd]
    by_cases e : n = j
    · subst e
      rw [if_neg (by omega), if_neg (by omega)] at ih
      rw [if_pos (by omega), if_pos (by omega)]
      omega
    · have hn : ind y n = ind x n := by unfold ind; rw [h n (by omega) e]
      by_cases l : j < n
      · rw [if_pos l, if_pos l] at ih
        rw [if_pos (by omega), if_pos (by omega)]
        omega
      · rw [if_neg l, if_neg l] at ih
        rw [if_neg (by omega), if_neg (by omega)]
        omega

theorem popcount_eq_sumInd (x : BB) : popcount x = sumInd x 64 := by
  unfold popcount; exact popcountAux_eq_sumInd x 64

theorem popcount_set (x : BB) (i : Nat) (hi : i < 64) (h : testBit x i = false) :
    popcount (x ||| bit i) = popcount x + 1 := by
  have := sumInd_update x (x ||| bit i) i 64 (fun k hk hne => by
    rw [testBit_or _ _ _ hk, testBit_bit _ _ hk hi]; simp [hne])
  rw [if_pos hi, if_pos hi] at this
  have h1 : ind x i = 0 := by unfold ind; rw [h]; rfl
  have h2 : ind (x ||| bit i) i = 1 := by
    unfold ind; rw [testBit_or _ _ _ hi, testBit_bit _ _ hi hi]; simp
  rw [popcount_eq_sumInd, popcount_eq_sumInd]; omega

theorem popcount_clear (x : BB) (i : Nat) (hi : i < 64) (h : testBit x i = true) :
    popcount (x &&& ~~~bit i) + 1 = popcount x := by
  have := sumInd_update x (x &&& ~~~bit i) i 64 (fun k hk hne => by
    rw [testBit_and _ _ _ hk, testBit_not _ _ hk, testBit_bit _ _ hk hi]; simp [hne])
  rw [if_pos hi, if_pos hi] at this
  have h1 : ind x i = 1 := by unfold ind; rw [h]; rfl
  have h2 : ind (x &&& ~~~bit i) i = 0 := by
    unfold ind; rw [testBit_and _ _ _ hi, testBit_not _ _ hi, testBit_bit _ _ hi hi]; simp
  rw [popcount_eq_sumInd, popcount_eq_sumInd]; omega

theorem popcount_set_same (x : BB) (i : Nat) (hi : i < 64) (h : testBit x i = true) :
    popcount (x ||| bit i) = popcount x := by
  congr 1; apply eq_of_testBit; intro k hk
  rw [testBit_or _ _ _ hk, testBit_bit _ _ hk hi]
  by_cases e : k = i
  · subst e; simp [h]
  · simp [e]

theorem popcount_clear_same (x : BB) (i : Nat) (hi : i < 64) (h : testBit x i = false) :
    popcount (x &&& ~~~bit i) = popcount x := by
  congr 1; apply eq_of_testBit; intro k hk
  rw [testBit_and _ _ _ hk, testBit_not _ _ hk, testBit_bit _ _ hk hi]
  by_cases e : k = i
  · subst e; simp [h]
  · simp [e]

/-! ### piece counts after `addPiece` / `removePiece` / `move_piece` -/

/-- number of pieces of kind `k` -/
def cnt (p : PBB) (k : Kind) : Nat := popcount (p.get k)

theorem cnt_remove (p : PBB) (hw : PBB.WF p) (s : Square) (h : IR s) (k : Kind) (hk : p.pieceAt s = some k)
    (j : Kind) : cnt (p.removePiece s k) j + (if j = k then 1 else 0) = cnt p j := by
  have hi := idx_lt s h
  have hks : testBit (p.get k) s.idx = true := (pieceAt_iff p hw s h k).mp hk
  unfold cnt PBB.removePiece
  rw [get_recompute, get_set, mask_eq s h]
  by_cases e : j = k
  · subst e; rw [if_pos rfl, if_pos rfl]; exact popcount_clear _ _ hi hks
  · rw [if_neg e, if_neg e]; rfl

theorem cnt_add (p : PBB) (hw : PBB.WF p) (s : Square) (h : IR s) (k : Kind) (hk : p.pieceAt s = none)
    (j : Kind) : cnt (p.addPiece s k) j = cnt p j + (if j = k then 1 else 0) := by
  have hi := idx_lt s h
  have hks : testBit (p.get k) s.idx = false := (pieceAt_none_iff p hw s h).mp hk k
  unfold cnt PBB.addPiece
  rw [get_recompute, get_set, mask_eq s h]
  by_cases e : j = k
  · subst e; rw [if_pos rfl, if_pos rfl]; exact popcount_set _ _ hi hks
  · rw [if_neg e, if_neg e]; rfl

/-- `move_piece`: the mover leaves, the captured piece disappears, the mover (or its promotion) arrives -/
theorem pmove_cnt (p : PBB) (hw : PBB.WF p) (start dest : Square) (hs : IR start) (hd : IR dest) (hne : start ≠ dest)
    (mv : Kind) (pr cap : Option Kind) (ep : Bool)
    (hmv : p.pieceAt start = some mv)
    (hcap : cap = p.pieceAt (capSq start dest ep))
    (hep : ep = true → p.pieceAt dest = none ∧ capSq start dest ep ≠ start ∧ capSq start dest ep ≠ dest)
    (j : Kind) :
    cnt (pmove p start dest mv pr cap ep) j + (if j = mv then 1 else 0) + (if cap = some j then 1 else 0) =
      cnt p j + (if j = pr.getD mv then 1 else 0) := by
  have hc : IR (capSq start dest ep) := by
    unfold capSq; split
    · exact ⟨hs.1, hd.2⟩
    · exact hd
  have hcs : capSq start dest ep ≠ start := by
    cases ep
    · exact fun e => hne e.symm
    · exact (hep rfl).2.1
  obtain ⟨w1, v1⟩ := remove_ok p hw start hs mv hmv
  have c1 := cnt_remove p hw start hs mv hmv j
  have hd1 : ∀ c, p.pieceAt dest = c → (p.removePiece start mv).pieceAt dest = c := by
    intro c h; rw [v1 dest hd, if_neg (fun e => hne e.symm), h]
  cases hcc : cap with
  | none =>
    rw [hcc] at hcap
    have hdn : p.pieceAt dest = none := by
      cases ep
      · exact hcap.symm
      · exact (hep rfl).1
    have c2 := cnt_add _ w1 dest hd (pr.getD mv) (hd1 _ hdn) j
    show cnt ((p.removePiece start mv).addPiece dest (pr.getD mv)) j + _ + _ = _
    have hz : (if (none : Option Kind) = some j then 1 else 0) = (0 : Nat) := if_neg (by simp)
    rw [c2, hz]
    omega
  | some c =>
    rw [hcc] at hcap
    have hc1 : (p.removePiece start mv).pieceAt (capSq start dest ep) = some c := by
      rw [v1 _ hc, if_neg hcs, ← hcap]
    obtain ⟨w2, v2⟩ := remove_ok _ w1 _ hc c hc1
    have c2 := cnt_remove _ w1 _ hc c hc1 j
    have hd2 : ((p.removePiece start mv).removePiece (capSq start dest ep) c).pieceAt dest = none := by
      rw [v2 dest hd]
      cases ep
      · simp [capSq]
      · rw [if_neg (fun e => (hep rfl).2.2 e.symm)]; exact hd1 _ (hep rfl).1
    have c3 := cnt_add _ w2 dest hd (pr.getD mv) hd2 j
    show cnt (((p.removePiece start mv).removePiece (capSq start dest ep) c).addPiece dest (pr.getD mv)) j + _ + _ = _
    rw [c3]
    have : (if some c = some j then 1 else 0) = (if j = c then 1 else (0 : Nat)) := by
      by_cases e : j = c
      · subst e; simp
      · rw [if_neg e, if_neg (by intro h; injection h with h; exact e h.symm)]
    rw [this]
    omega

/-! ### piece counts after `make_move` -/

theorem makeMove_cnt (b : Board) (m : Ply) (hw : WF b) (g : Gen b m) (j : Kind) :
    cnt (b.makeMove m).bbs j + (if j = m.piece then 1 else 0) + (if m.captured = some j then 1 else 0) =
      cnt b.bbs j + (if j = m.promoted.getD m.piece then 1 else 0) := by
  have hbbs : (b.makeMove m).bbs = newBBS b m := by rw [makeMove_eq]; rfl
  rw [hbbs]
  have c1 := pmove_cnt b.bbs hw.bbs m.start m.dest g.irs g.ird g.ne m.piece m.promoted m.captured m.enPassant
    g.shape.piece (gen_cap b m g) (gen_ep b m g) j
  obtain ⟨w1, v1, -⟩ := main_ok b hw m g
  unfold newBBS castleBBS
  cases hc : m.isCastles
  · simp only [Bool.false_eq_true, if_false]
    exact c1
  · obtain ⟨rs, rd, hcr, irs, ird, hne, n1, n2, n3, n4, hr, hrd, hdn, hep, hpr, hpc, -, -, -⟩ := castle_squares b hw m g hc
    simp only [if_true, hcr]
    have hv : ∀ s, IR s → s ≠ m.start → s ≠ m.dest →
        (pmove b.bbs m.start m.dest m.piece m.promoted m.captured m.enPassant).pieceAt s = b.bbs.pieceAt s := by
      intro s hs e1 e2
      rw [v1 s hs]; unfold viewMove; rw [if_neg e2, if_neg e1, hep]; simp [capSq, e2]
    have c2 := pmove_cnt _ w1 rs rd irs ird hne ⟨.rook, b.turn⟩ none none false
      (by rw [hv rs irs n1 n2, hr]) (by simp only [capSq, Bool.false_eq_true, if_false]; rw [hv rd ird n3 n4, hrd])
      (by intro h; cases h) j
    have hz : (if (none : Option Kind) = some j then 1 else 0) = (0 : Nat) := if_neg (by simp)
    rw [hz, Option.getD_none] at c2
    omega

/-! ### the promote-everything material -/

/-- what a side could ever own: every pawn counted as a queen -/
def potential (b : Board) (c : Color) : Nat :=
  queenValue * (cnt b.bbs ⟨.queen, c⟩ + cnt b.bbs ⟨.pawn, c⟩) + rookValue * cnt b.bbs ⟨.rook, c⟩
    + bishopValue * cnt b.bbs ⟨.bishop, c⟩ + knightValue * cnt b.bbs ⟨.knight, c⟩

def PotentialBounded (b : Board) : Prop := potential b .white ≤ 32511 ∧ potential b .black ≤ 32511

instance (b : Board) : Decidable (PotentialBounded b) := by unfold PotentialBounded; infer_instance

/-- no generated move increases either side's potential -/
theorem potential_makeMove (b : Board) (m : Ply) (hw : WF b) (g : Gen b m) (g2 : Gen2 b m) (c : Color) :
    potential (b.makeMove m) c ≤ potential b c := by
  have H := fun j => makeMove_cnt b m hw g j
  simp only [potential, queenValue, rookValue, bishopValue, knightValue]
  cases hq : m.promoted with
  | none =>
    simp only [hq, Option.getD_none] at H
    have h1 := H ⟨.queen, c⟩
    have h2 := H ⟨.pawn, c⟩
    have h3 := H ⟨.rook, c⟩
    have h4 := H ⟨.bishop, c⟩
    have h5 := H ⟨.knight, c⟩
    omega
  | some q =>
    have hpk : m.piece.pk = .pawn := by
      apply Classical.byContradiction; intro hn
      have := (g2.nonpawn hn).2.2
      rw [hq] at this; cases this
    have hqc : q.color = m.piece.color := by rw [g2.promo q hq, g.shape.color]
    rcases hmp : m.piece with ⟨pk, t⟩
    rw [hmp] at hpk hqc; simp only at hpk hqc; subst hpk
    rcases q with ⟨qk, qc⟩
    simp only at hqc; subst hqc
    simp only [hq, hmp, Option.getD_some] at H
    have h1 := H ⟨.queen, c⟩
    have h2 := H ⟨.pawn, c⟩
    have h3 := H ⟨.rook, c⟩
    have h4 := H ⟨.bishop, c⟩
    have h5 := H ⟨.knight, c⟩
    clear H
    cases c <;> cases qc <;> cases qk <;>
      simp only [Kind.mk.injEq, reduceCtorEq, and_true, and_false, and_self, if_true, if_false] at h1 h2 h3 h4 h5 <;>
      omega

theorem material_le_potential (b : Board) (c : Color) : material b c ≤ potential b c := by
  simp only [material, potential, cnt, evalLoop0, List.foldl, pkOfIdx, queenValue, rookValue, bishopValue,
    knightValue, pawnValue]
  omega

/-- the evaluation is bounded by the larger potential -/
theorem eval_of_potential (q : Board) (n : Nat) (hn : n ≤ 32767) (h1 : potential q .white ≤ n) (h2 : potential q .black ≤ n) :
    -(n : Int) ≤ q.evaluate ∧ q.evaluate ≤ n := by
  have m1 := material_le_potential q .white
  have m2 := material_le_potential q .black
  have hb : MaterialBounded q := ⟨by omega, by omega⟩
  rw [evaluate_eq_material_diff q hb]
  cases q.turn <;> simp only [Color.opp] <;> omega

/-! ### the invariant along generated moves -/

theorem reach_inv (b : Board) (hw : WF b) (q : Board) (hr : Reach chessGame b q) :
    WF q ∧ potential q .white ≤ potential b .white ∧ potential q .black ≤ potential b .black := by
  induction hr with
  | refl => exact ⟨hw, Nat.le_refl _, Nat.le_refl _⟩
  | @step q m _ hm ih =>
    obtain ⟨wq, p1, p2⟩ := ih
    have hm' : m ∈ q.allMoves := hm
    have g := gen_of_mem q wq m hm'
    have g2 := gen2_of_mem q wq m hm'
    show WF (q.makeMove m) ∧ potential (q.makeMove m) .white ≤ _ ∧ potential (q.makeMove m) .black ≤ _
    exact ⟨makeMove_wf q m wq g, Nat.le_trans (potential_makeMove q m wq g g2 .white) p1,
      Nat.le_trans (potential_makeMove q m wq g g2 .black) p2⟩

/-- `EvalBoundedFrom` holds for chess from every well-formed position whose promote-everything material is
    within the bound -/
theorem chess_eval_bounded' (b : Board) (hw : WF b) (hp : PotentialBounded b) : EvalBoundedFrom chessGame b := by
  intro q hr
  obtain ⟨-, p1, p2⟩ := reach_inv b hw q hr
  obtain ⟨h1, h2⟩ := eval_of_potential q 32511 (by decide) (Nat.le_trans p1 hp.1) (Nat.le_trans p2 hp.2)
  have e : chessGame.eval q = q.evaluate := by simp only [chessGame]
  rw [e]
  constructor <;> omega

end RCE.Proofs.EvalBound
