import RCE.Props.C01
import RCE.Props.C02
import RCE.Props.C03
/-! # Perft exactness and history-level corollaries of C01 / C02 / C03

* `Board.perft` — the engine's test utility `perft` (count the leaves of the legal-move tree) over the model.
* `perft_exact` — for **every** legal-game position and **every** depth the model's perft is the rules
  spec's perft of the abstracted position (from `legal_exact`, `legalMoves_pure`, `make_refines`, `make_legal`).
* `perft_start` — the same for the start position (non-vacuity).
* `rights_never_regained_step`, `rights_never_regained_spec`, `rights_never_regained` — a castling right that
  is off stays off, one step / any sequence over the spec / along any legal model game.
* `ep_only_after_double_push`, `ep_after_double_push`, `ep_iff_double_push` — the en-passant file is present
  exactly on the ply after a pawn double step (and is the file of that pawn). -/
namespace RCE

/-- `perft`: number of leaves of the legal-move tree of the given depth -/
def Board.perft (b : Board) : Nat → Nat
  | 0 => 1
  | d+1 => (b.legalMovesPure).foldl (fun n m => n + (b.makeMove m).perft d) 0

end RCE

namespace RCE.Proofs.Perft
open RCE RCE.Proofs.BoardWF RCE.Proofs.Abs RCE.Props.C03

/-! ## sums by `foldl` -/

/-- the summand may be changed on the members of the list -/
theorem foldl_add_congr {α : Type} (l : List α) (f g : α → Nat) (h : ∀ x ∈ l, f x = g x) (init : Nat) :
    l.foldl (fun n x => n + f x) init = l.foldl (fun n x => n + g x) init := by
  induction l generalizing init with
  | nil => rfl
  | cons a l ih =>
    simp only [List.foldl_cons]
    rw [h a (List.mem_cons_self ..)]
    exact ih (fun x hx => h x (List.mem_cons_of_mem _ hx)) _

/-- a `foldl` sum does not depend on the order of the list -/
theorem foldl_add_perm {α : Type} {l₁ l₂ : List α} (p : l₁.Perm l₂) (f : α → Nat) (init : Nat) :
    l₁.foldl (fun n x => n + f x) init = l₂.foldl (fun n x => n + f x) init :=
  p.foldl_eq' (fun x _ y _ z => Nat.add_right_comm z (f x) (f y)) init

/-! ## perft -/

theorem perft_zero (b : Board) : b.perft 0 = 1 := rfl

theorem perft_succ (b : Board) (d : Nat) :
    b.perft (d+1) = (b.legalMovesPure).foldl (fun n m => n + (b.makeMove m).perft d) 0 := rfl

/-- the model's perft is the rules' perft, for every legal-game position and every depth -/
theorem perft_exact (b : Board) (hl : Legal b) (d : Nat) : b.perft d = Rules.perft (abs b) d := by
  induction d generalizing b with
  | zero => rfl
  | succ d ih =>
    have hperm : (b.legalMovesPure.map absMove).Perm (Rules.legalMoves (abs b)) := by
      have h := (RCE.Props.C01.legal_exact b hl).1
      rw [(RCE.Props.C02.legalMoves_pure b hl.wf).2] at h
      exact h
    have hsummand : ∀ m ∈ b.legalMovesPure,
        (b.makeMove m).perft d = Rules.perft (Rules.apply (abs b) (absMove m)) d := by
      intro m hm
      rw [ih (b.makeMove m) (make_legal b m hl hm), make_refines b m hl (legal_is_generated b m hm)]
    rw [perft_succ, foldl_add_congr _ _ _ hsummand 0]
    show _ = (Rules.legalMoves (abs b)).foldl (fun n m => n + Rules.perft (Rules.apply (abs b) m) d) 0
    rw [← foldl_add_perm hperm (fun m => Rules.perft (Rules.apply (abs b) m) d) 0, List.foldl_map]

/-- non-vacuity: the start position, every depth -/
theorem perft_start (d : Nat) : Board.start.perft d = Rules.perft (abs Board.start) d :=
  perft_exact _ start_legal d

/-! ## castling rights are never regained -/

/-- one step of the rules' state machine: a right that is on afterwards was on before -/
theorem rights_never_regained_step (p : Rules.Pos) (m : Rules.Move) :
    ((Rules.apply p m).wk = true → p.wk = true) ∧ ((Rules.apply p m).wq = true → p.wq = true) ∧
    ((Rules.apply p m).bk = true → p.bk = true) ∧ ((Rules.apply p m).bq = true → p.bq = true) := by
  unfold Rules.apply
  split
  · exact ⟨id, id, id, id⟩
  · simp only [Bool.and_eq_true]
    exact ⟨fun h => h.1.1, fun h => h.1.1, fun h => h.1.1, fun h => h.1.1⟩

/-- any sequence of moves over the spec -/
theorem rights_never_regained_spec (p : Rules.Pos) (ms : List Rules.Move) :
    ((ms.foldl Rules.apply p).wk = true → p.wk = true) ∧ ((ms.foldl Rules.apply p).wq = true → p.wq = true) ∧
    ((ms.foldl Rules.apply p).bk = true → p.bk = true) ∧ ((ms.foldl Rules.apply p).bq = true → p.bq = true) := by
  induction ms generalizing p with
  | nil => exact ⟨id, id, id, id⟩
  | cons m ms ih =>
    have h1 := rights_never_regained_step p m
    have h2 := ih (Rules.apply p m)
    simp only [List.foldl_cons]
    exact ⟨fun h => h1.1 (h2.1 h), fun h => h1.2.1 (h2.2.1 h),
           fun h => h1.2.2.1 (h2.2.2.1 h), fun h => h1.2.2.2 (h2.2.2.2 h)⟩

/-- along any legal game of the model, of any length -/
theorem rights_never_regained (b : Board) (ms : List Ply) (hl : Legal b) (hs : LegalSeq b ms) :
    let p := abs b
    let q := abs (ms.foldl Board.makeMove b)
    (q.wk = true → p.wk = true) ∧ (q.wq = true → p.wq = true) ∧
    (q.bk = true → p.bk = true) ∧ (q.bq = true → p.bq = true) := by
  intro p q
  have h : q = (ms.map absMove).foldl Rules.apply p := (game_refines b ms hl hs).1
  rw [h]
  exact rights_never_regained_spec p (ms.map absMove)

/-! ## the en-passant file is present exactly after a pawn double step

`Rules.apply p m` is `p` itself when there is no piece on `m.src` (a move from an empty square is not a
move), so in that case `(Rules.apply p m).ep = p.ep` may well be `some f` left over from before.  The
statement `(Rules.apply p m).ep = some f → ∃ pc, p.at m.src = some pc ∧ …` is therefore false without a
hypothesis; two true forms are given: `ep_only_after_double_push'` (no hypothesis, the strongest: the empty
source square is the only other case, and then nothing changed) and `ep_only_after_double_push` (with the
hypothesis `p.at m.src ≠ none`, which every pseudo-legal and so every legal move satisfies). -/

/-- no hypothesis: either there was no piece to move (and the position is unchanged), or a pawn made a double step from that file -/
theorem ep_only_after_double_push' (p : Rules.Pos) (m : Rules.Move) (f : Nat)
    (h : (Rules.apply p m).ep = some f) :
    (p.at m.src = none ∧ Rules.apply p m = p ∧ p.ep = some f) ∨
    ∃ pc, p.at m.src = some pc ∧ pc.kind = .pawn ∧ (m.dst = m.src + 16 ∨ m.dst + 16 = m.src) ∧ f = m.src % 8 := by
  unfold Rules.apply at h ⊢
  split at h
  · next hn => left; simp only [hn]; exact ⟨trivial, trivial, h⟩
  · next pc hs =>
    right
    refine ⟨pc, hs, ?_⟩
    simp only [] at h
    split at h
    · next hc =>
      simp only [Bool.and_eq_true, Bool.or_eq_true, beq_iff_eq] at hc
      simp only [Option.some.injEq] at h
      exact ⟨hc.1, hc.2, h.symm⟩
    · exact absurd h (by simp)

/-- with a piece on the source square: the file is set only by a pawn double step, and is that pawn's file -/
theorem ep_only_after_double_push (p : Rules.Pos) (m : Rules.Move) (f : Nat) (hsrc : p.at m.src ≠ none)
    (h : (Rules.apply p m).ep = some f) :
    ∃ pc, p.at m.src = some pc ∧ pc.kind = .pawn ∧ (m.dst = m.src + 16 ∨ m.dst + 16 = m.src) ∧ f = m.src % 8 := by
  rcases ep_only_after_double_push' p m f h with h | h
  · exact absurd h.1 hsrc
  · exact h

/-- converse: a pawn double step sets the file to the pawn's file -/
theorem ep_after_double_push (p : Rules.Pos) (m : Rules.Move) (pc : Rules.Piece)
    (hs : p.at m.src = some pc) (hk : pc.kind = .pawn) (hd : m.dst = m.src + 16 ∨ m.dst + 16 = m.src) :
    (Rules.apply p m).ep = some (m.src % 8) := by
  unfold Rules.apply
  simp only [hs, hk]
  rw [if_pos]
  simp only [Bool.and_eq_true, Bool.or_eq_true, beq_iff_eq]
  exact ⟨trivial, hd⟩

/-- any other move of a piece clears the file -/
theorem ep_none_otherwise (p : Rules.Pos) (m : Rules.Move) (pc : Rules.Piece)
    (hs : p.at m.src = some pc) (hn : ¬ (pc.kind = .pawn ∧ (m.dst = m.src + 16 ∨ m.dst + 16 = m.src))) :
    (Rules.apply p m).ep = none := by
  cases h : (Rules.apply p m).ep with
  | none => rfl
  | some f =>
    obtain ⟨pc', hs', hk, hd, _⟩ := ep_only_after_double_push p m f (by rw [hs]; simp) h
    rw [hs] at hs'
    cases hs'
    exact absurd ⟨hk, hd⟩ hn

/-- "present exactly on the ply after a double pawn push" -/
theorem ep_iff_double_push (p : Rules.Pos) (m : Rules.Move) (f : Nat) (hsrc : p.at m.src ≠ none) :
    (Rules.apply p m).ep = some f ↔
      ∃ pc, p.at m.src = some pc ∧ pc.kind = .pawn ∧ (m.dst = m.src + 16 ∨ m.dst + 16 = m.src) ∧ f = m.src % 8 := by
  constructor
  · exact ep_only_after_double_push p m f hsrc
  · rintro ⟨pc, hs, hk, hd, rfl⟩
    exact ep_after_double_push p m pc hs hk hd

/-- lifted to the model: after a legal move of a legal-game position the board's en-passant file is set
    exactly when the move was a pawn double step, to that pawn's file -/
theorem ep_model (b : Board) (m : Ply) (hl : Legal b) (hm : m ∈ b.legalMovesPure) (f : Nat) :
    (b.makeMove m).ep = some f →
      ∃ pc, (abs b).at m.start.idx = some pc ∧ pc.kind = .pawn ∧
        (m.dest.idx = m.start.idx + 16 ∨ m.dest.idx + 16 = m.start.idx) ∧ f = m.start.idx % 8 := by
  intro h
  have href := make_refines b m hl (legal_is_generated b m hm)
  have hep : (Rules.apply (abs b) (absMove m)).ep = some f := by rw [← href]; exact h
  rcases ep_only_after_double_push' (abs b) (absMove m) f hep with hn | hp
  · -- no piece on the source square: impossible, a generated move starts on its own piece
    exfalso
    have g := RCE.Proofs.BoardGen.gen_of_mem b hl.wf m (legal_is_generated b m hm)
    have hat : (abs b).at m.start.idx = some (absPiece m.piece) := by
      rw [RCE.Proofs.MoveGen.abs_at_sq b m.start g.irs, g.shape.piece]; rfl
    have hn1 : (abs b).at m.start.idx = none := hn.1
    rw [hat] at hn1
    cases hn1
  · exact hp

end RCE.Proofs.Perft

#print axioms RCE.Proofs.Perft.perft_exact
#print axioms RCE.Proofs.Perft.perft_start
#print axioms RCE.Proofs.Perft.rights_never_regained_step
#print axioms RCE.Proofs.Perft.rights_never_regained_spec
#print axioms RCE.Proofs.Perft.rights_never_regained
#print axioms RCE.Proofs.Perft.ep_only_after_double_push'
#print axioms RCE.Proofs.Perft.ep_only_after_double_push
#print axioms RCE.Proofs.Perft.ep_after_double_push
#print axioms RCE.Proofs.Perft.ep_none_otherwise
#print axioms RCE.Proofs.Perft.ep_iff_double_push
#print axioms RCE.Proofs.Perft.ep_model
