import RCE.Proofs.SearchBest
import RCE.Proofs.SearchAbort
import RCE.Proofs.SearchNegamaxBase
/-! C14 (addition): every reported `info` line of a root that has a legal move carries a non-empty
    principal variation whose first move is a legal move of the root.

    An info line for depth `d` is appended by `iterate` only when the abort check right after
    `abStart env G p d st` does not fire.  `abStart` either ends in an interrupted state (the root loop was
    aborted, or the check before the save fired) — and under a monotone clock an interruption is sticky, so
    the check in `iterate` fires as well — or it completes and stores `⟨alpha, d, exact, best⟩` under the
    root key with `best` a legal root move (root-loop invariant `RootJ`), which `getPv` reads at its first
    step (`d ≥ 1`). -/
namespace RCE.Proofs.SearchPvNonempty
open RCE.Search RCE.Proofs.SearchDefs RCE.Proofs.SearchUnfold RCE.Proofs.SearchBest RCE.Proofs.SearchAbort

variable {P M : Type} [DecidableEq M]
set_option linter.unusedSectionVars false

/-- what the root loop guarantees beyond `rootKids_B`: an aborted loop ends in an interrupted state, a completed
    one has counted every legal move of its list -/
def RootPost (env : Env) (n : Nat) (ex : Prop) : RootLoop M → Prop
  | .abort st' => Interrupted env st'
  | .done _ _ n' _ => n ≤ n' ∧ (ex → n < n')

theorem rootAbort_interrupted {env : Env} {st : St M} (alpha : Int) (best : M) (h : Interrupted env st) :
    Interrupted env (rootAbort alpha best st) := by
  unfold rootAbort
  exact ite_pred (Interrupted env) h h

theorem rootKids_post (env : Env) (hc : MonoClock env) {G : Game P M} {root : P}
    {rec : P → Int → Int → Nat → St M → Int × St M} (hrec : RecB G root 1 rec) (depth : Nat) :
    ∀ (ms : List M) (alpha : Int) (best : M) (pvs : Bool) (n : Nat) (st : St M), st.ply = 0 →
      RootPost env n (∃ m ∈ ms, G.legal root m = true) (rootKids env G rec root depth ms alpha best pvs n st) := by
  intro ms
  induction ms with
  | nil =>
    intro alpha best pvs n st _
    rw [rootKids_nil]
    refine ⟨Nat.le_refl _, ?_⟩
    rintro ⟨m, hm, _⟩
    exact absurd hm List.not_mem_nil
  | cons m ms ih =>
    intro alpha best pvs n st hk
    rw [rootKids_cons]
    split
    · rename_i hl
      have h := ih alpha best pvs n st hk
      revert h
      generalize rootKids env G rec root depth ms alpha best pvs n st = r
      intro h
      cases r with
      | abort s => exact h
      | done a b n' s =>
        refine ⟨h.1, ?_⟩
        rintro ⟨x, hx, hxl⟩
        rcases List.mem_cons.1 hx with rfl | hx
        · rw [hxl] at hl; simp at hl
        · exact h.2 ⟨x, hx, hxl⟩
    · have hp := pvsChild_B hrec root m alpha MAXS depth pvs false st (by rw [hk])
      have hf := abortCheck_frame env (pvsChild G rec root m alpha MAXS depth pvs false st).2
      have hk1 : (pvsChild G rec root m alpha MAXS depth pvs false st).2.ply = 0 := hp.1.1.trans hk
      have hk2 : (abortCheck env (pvsChild G rec root m alpha MAXS depth pvs false st).2).2.ply = 0 :=
        hf.2.2.1.trans hk1
      simp only []
      split
      · rename_i hab
        exact rootAbort_interrupted _ _
          (abortCheck_interrupts' env _ hc (by rw [hk1]; omega) hab)
      · split
        · have h := ih (pvsChild G rec root m alpha MAXS depth pvs false st).1 m true (n + 1) _ hk2
          revert h
          generalize rootKids env G rec root depth ms _ m true (n + 1) _ = r
          intro h
          cases r with
          | abort s => exact h
          | done a b n' s =>
            have h1 : n + 1 ≤ n' := h.1
            exact ⟨by omega, fun _ => by omega⟩
        · have h := ih alpha best pvs (n + 1) _ hk2
          revert h
          generalize rootKids env G rec root depth ms alpha best pvs (n + 1) _ = r
          intro h
          cases r with
          | abort s => exact h
          | done a b n' s =>
            have h1 : n + 1 ≤ n' := h.1
            exact ⟨by omega, fun _ => by omega⟩

/-- the state `abStart` returns is interrupted, or holds a root entry whose move is legal -/
def StartPost (env : Env) (G : Game P M) (root : P) (S : St M) : Prop :=
  Interrupted env S ∨ ∃ e, S.tt[G.key root]? = some e ∧ e.best ∈ legalMovesOf G root

theorem abStart_post (env : Env) (hc : MonoClock env) {G : Game P M} {root : P} (he : EvalBoundedFrom G root)
    (hl : legalMovesOf G root ≠ []) (depth : Nat) {st : St M} (h : RootInv G root st) :
    StartPost env G root (abStart env G root depth st) := by
  rw [abStart_eq]
  split
  · rename_i heq
    unfold legalMovesOf at hl
    rw [heq] at hl
    exact absurd rfl hl
  · rename_i m0 t _
    have hrec : RecB G root 1 (ab env G 255) := fun c a b d st' hk => ab_B env G root 255 c a b d st' (by omega)
    have hk := rootKids_B env he hrec depth
      (orderMoves G ((st.tt[G.key root]?).map (·.best)) (st.killers.getD st.ply (none, none)) (G.allMoves root))
      MINS m0 false 0 st (fun m hm => orderMoves_mem _ _ _ _ _ hm) h (by unfold InR MINS MAXS; omega) (.inl ⟨rfl, rfl⟩)
    have hq := rootKids_post env hc hrec depth
      (orderMoves G ((st.tt[G.key root]?).map (·.best)) (st.killers.getD st.ply (none, none)) (G.allMoves root))
      MINS m0 false 0 st h.ply
    split
    · rename_i heq
      rw [heq] at hq
      exact .inl hq
    · rename_i a b n st' heq
      rw [heq] at hk hq
      have hex : ∃ m ∈ orderMoves G ((st.tt[G.key root]?).map (·.best)) (st.killers.getD st.ply (none, none))
          (G.allMoves root), G.legal root m = true := by
        cases hlm : legalMovesOf G root with
        | nil => exact absurd hlm hl
        | cons x xs =>
          have hx : x ∈ legalMovesOf G root := by rw [hlm]; exact List.mem_cons_self
          have hx' := List.mem_filter.1 hx
          exact ⟨x, (RCE.Proofs.SearchNegamax.orderMoves_perm G _ _ _).mem_iff.2 hx'.1, hx'.2⟩
      have hn : n ≠ 0 := by
        have := hq.2 hex
        omega
      rw [if_neg hn]
      have hst' : RootInv G root st' := hk.1
      unfold rootSave
      split
      · rename_i hab
        exact .inl (abortCheck_interrupts' env st' hc (by rw [hst'.ply]; omega) hab)
      · refine .inr ⟨⟨a, depth, .exact, b⟩, ?_, (hk.2 a b n st' rfl).2 hn⟩
        show ((abortCheck env st').2.tt.insert (G.key root) ⟨a, depth, .exact, b⟩)[G.key root]? = some _
        exact Std.HashMap.getElem?_insert_self

/-- the property of an info line -/
def PvGood (G : Game P M) (p : P) (i : InfoLine M) : Prop :=
  ∃ m rest, i.pv = m :: rest ∧ m ∈ legalMovesOf G p

theorem iterate_pv_nonempty (env : Env) (hc : MonoClock env) {G : Game P M} {p : P} (he : EvalBoundedFrom G p)
    (hl : legalMovesOf G p ≠ []) (md : Nat) :
    ∀ (fuel d : Nat) (st : St M) (infos : List (InfoLine M)), 1 ≤ d → RootInv G p st →
      (∀ i ∈ infos, PvGood G p i) →
      ∀ i ∈ (iterate env G p md fuel d st infos).2, PvGood G p i := by
  intro fuel
  induction fuel with
  | zero => intro d st infos _ _ h; exact h
  | succ fuel ih =>
    intro d st infos hd h hi
    rw [iterate_succ]
    have h1 := abStart_B env he d h
    have hf := abortCheck_frame env (abStart env G p d st)
    have hcI : RootInv G p (abortCheck env (abStart env G p d st)).2 :=
      h1.of_keep (keep_of_frame hf) (by rw [hf.1]; exact h1.tbl)
    have hpost := abStart_post env hc he hl d h
    split
    · exact hi
    · simp only []
      split
      · exact hi
      · rename_i hab
        apply ih (d + 1) _ _ (by omega) hcI
        intro i hmem
        rcases List.mem_append.1 hmem with hmem | hmem
        · exact hi i hmem
        · rw [List.mem_singleton] at hmem
          subst hmem
          rcases hpost with hint | ⟨e, hE, hbest⟩
          · exact absurd (abortCheck_of_interrupted env _ hc hint) hab
          · obtain ⟨d', rfl⟩ : ∃ d', d = d' + 1 := ⟨d - 1, by omega⟩
            have hlegal : G.legal p e.best = true := (List.mem_filter.1 hbest).2
            refine ⟨e.best, getPv G (abortCheck env (abStart env G p (d' + 1) st)).2.tt d' (G.play p e.best), ?_, hbest⟩
            show getPv G (abortCheck env (abStart env G p (d' + 1) st)).2.tt (d' + 1) p = _
            simp only [getPv]
            rw [hf.1, hE]
            simp only [hlegal, if_true]

/-- every info line reported for a root that has a legal move carries a principal variation with at least one
    move, and its first move is a legal move of the root -/
theorem pv_nonempty' (env : Env) (G : Game P M) (p : P) (maxDepth : Option Nat) (tt0 : Table M)
    (hc : MonoClock env) (hl : legalMovesOf G p ≠ []) (he : EvalBoundedFrom G p) (ht : TableScoresOK tt0) :
    ∀ i ∈ (search env G p maxDepth tt0).infos, ∃ m rest, i.pv = m :: rest ∧ m ∈ legalMovesOf G p := by
  have h0 : RootInv G p ({ tt := tt0 } : St M) :=
    ⟨rfl, ht, fun m hm => (by cases hm), fun s hs => (by cases hs)⟩
  have h := iterate_pv_nonempty env hc he hl (maxDepth.getD 255) (maxDepth.getD 255) 1 { tt := tt0 } []
    (Nat.le_refl 1) h0 (fun i hi => absurd hi List.not_mem_nil)
  simp only [search]
  exact h

end RCE.Proofs.SearchPvNonempty

#print axioms RCE.Proofs.SearchPvNonempty.pv_nonempty'
