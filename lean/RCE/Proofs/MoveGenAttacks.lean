import RCE.Proofs.Abs
import RCE.Proofs.Sliders
import RCE.Proofs.BoardPBB
import RCE.Proofs.MoveGenList
/-! C01, part 1: the abstraction `abs` read square by square, the attack set of every piece kind is the
    spec's (from C06), `get_attacked_squares` and `is_in_check` are exact. -/
namespace RCE.Proofs.MoveGen
open RCE RCE.Proofs.BoardWF RCE.Proofs.Abs RCE.Proofs.BoardPBB RCE.Proofs.BoardBits RCE.Proofs.Sliders
open RCE.Proofs.MoveGenList

/-! ### the mailbox view of `abs b` -/

theorem abs_at (b : Board) (i : Nat) (h : i < 64) :
    (abs b).at i = (b.pieceAt (Square.ofIdx i)).map absPiece := by
  unfold Rules.Pos.at abs
  simp [Array.getD, h]

theorem abs_at_ge (b : Board) (i : Nat) (h : 64 ≤ i) : (abs b).at i = none := by
  unfold Rules.Pos.at abs
  simp [Array.getD]
  omega

theorem abs_at_sq (b : Board) (s : Square) (h : IR s) : (abs b).at s.idx = (b.pieceAt s).map absPiece := by
  rw [abs_at b _ (idx_lt s h), ofIdx_of_idx s h]

theorem absColor_inj (c c' : Color) : absColor c = absColor c' ↔ c = c' := by
  cases c <;> cases c' <;> simp [absColor]

theorem absColor_beq (c c' : Color) : (absColor c == absColor c') = (c == c') := by
  cases c <;> cases c' <;> rfl

theorem absColor_opp (c : Color) : absColor c.opp = (absColor c).opp := by cases c <;> rfl

theorem absPiece_inj (k k' : Kind) : absPiece k = absPiece k' ↔ k = k' := by
  rcases k with ⟨pk, c⟩; rcases k' with ⟨pk', c'⟩
  cases pk <;> cases c <;> cases pk' <;> cases c' <;> simp [absPiece, absColor, absPK]

/-- the colour union boards read as the mailbox -/
theorem sameColor_bit (b : Board) (hw : PBB.WF b.bbs) (c : Color) (s : Square) (h : IR s) :
    testBit (sameColorBB b c) s.idx = (match b.pieceAt s with | some k => k.color == c | none => false) := by
  have hi := idx_lt s h
  have hwb := white_bits b.bbs hw _ hi
  have hbb := black_bits b.bbs hw _ hi
  unfold Board.pieceAt
  rcases pieceAt_cases b.bbs hw s h with ⟨k, h1, h2⟩ | ⟨h1, h2⟩
  · rw [h1]
    have hd : ∀ k', k' ≠ k → has b.bbs k' s.idx = false := by
      intro k' hne
      cases hh : has b.bbs k' s.idx
      · rfl
      · exact absurd (has_disjoint b.bbs hw _ hi _ _ hh h2) hne
    rcases k with ⟨pk, kc⟩
    cases c <;> simp only [sameColorBB] <;> (first | rw [hwb] | rw [hbb]) <;>
      cases pk <;> cases kc <;> simp [h2, hd]
  · rw [h1]
    cases c <;> simp only [sameColorBB] <;> (first | rw [hwb] | rw [hbb]) <;> simp [h2]

theorem all_bit (b : Board) (hw : PBB.WF b.bbs) (s : Square) (h : IR s) :
    testBit b.bbs.all s.idx = (b.pieceAt s).isSome := by
  have hi := idx_lt s h
  rw [hw.all, testBit_or _ _ _ hi]
  have h1 := sameColor_bit b hw .white s h
  have h2 := sameColor_bit b hw .black s h
  simp only [sameColorBB] at h1 h2
  rw [h1, h2]
  cases hp : b.pieceAt s with
  | none => rfl
  | some k => rcases k with ⟨pk, c⟩; cases c <;> rfl

/-! ### attack sets -/

theorem step_lt (sq : Nat) (df dr : Int) (t : Nat) (h : Rules.step sq df dr = some t) : t < 64 := by
  unfold Rules.step at h
  simp only at h
  split at h
  · injection h with h; omega
  · cases h

theorem slideOcc_congr (occ occ' : Nat → Bool) (h : ∀ t, t < 64 → occ t = occ' t) (d : Int × Int) (n : Nat) :
    ∀ sq, Rules.slideOcc occ sq d n = Rules.slideOcc occ' sq d n := by
  induction n with
  | zero => intro sq; rfl
  | succ n ih =>
    intro sq
    unfold Rules.slideOcc
    cases hs : Rules.step sq d.1 d.2 with
    | none => rfl
    | some t =>
      simp only
      rw [h t (step_lt _ _ _ _ hs), ih t]

theorem occ_abs (b : Board) (hw : PBB.WF b.bbs) (t : Nat) (ht : t < 64) :
    ((abs b).at t).isSome = occOf b.bbs.all t := by
  unfold occOf
  have := all_bit b hw (Square.ofIdx t) (ofIdx_IR t ht)
  rw [ofIdx_idx] at this
  rw [this, abs_at b t ht]
  cases b.pieceAt (Square.ofIdx t) <;> rfl

theorem slide_abs (b : Board) (hw : PBB.WF b.bbs) (sq : Nat) (d : Int × Int) :
    Rules.slide (abs b) sq d 7 = Rules.slideOcc (occOf b.bbs.all) sq d 7 := by
  unfold Rules.slide
  exact slideOcc_congr _ _ (fun t ht => occ_abs b hw t ht) d 7 sq

theorem flatMap_slide_abs (b : Board) (hw : PBB.WF b.bbs) (sq : Nat) (dirs : List (Int × Int)) :
    (dirs.flatMap fun d => Rules.slide (abs b) sq d 7) = specSlider dirs sq b.bbs.all := by
  unfold specSlider
  congr 1
  funext d
  exact slide_abs b hw sq d

/-- C06 assembled: the attack set the engine computes for a piece of any kind on any square is the spec's -/
theorem kindAttacks_exact (b : Board) (hw : PBB.WF b.bbs) (k : Kind) (sq : Nat) (h : sq < 64) :
    Exact (kindAttacks k sq b.bbs.all) (Rules.attacksFrom (abs b) sq (absPiece k)) := by
  rcases k with ⟨pk, c⟩
  cases pk
  · -- pawn
    have := pawn_exact (c == .white) sq h
    cases c <;> exact this
  · exact king_exact sq h
  · show Exact (queenAttacks sq b.bbs.all) ((Rules.rookDirs ++ Rules.bishopDirs).flatMap fun d => Rules.slide (abs b) sq d 7)
    rw [flatMap_slide_abs b hw]
    exact queen_exact sq _ h
  · show Exact (rookAttacks sq b.bbs.all) (Rules.rookDirs.flatMap fun d => Rules.slide (abs b) sq d 7)
    rw [flatMap_slide_abs b hw]
    obtain ⟨a, ha, hea⟩ := rook_exact sq b.bbs.all h
    unfold rookAttacks; rw [ha]; exact hea
  · show Exact (bishopAttacks sq b.bbs.all) (Rules.bishopDirs.flatMap fun d => Rules.slide (abs b) sq d 7)
    rw [flatMap_slide_abs b hw]
    obtain ⟨a, ha, hea⟩ := bishop_exact sq b.bbs.all h
    unfold bishopAttacks; rw [ha]; exact hea
  · exact knight_exact sq h

theorem exact_contains {att : BB} {spec : List Nat} (h : Exact att spec) (t : Nat) (ht : t < 64) :
    testBit att t = spec.contains t := by
  rw [Bool.eq_iff_iff, h t ht]; simp

/-! ### `get_attacked_squares` -/

theorem foldl_or (f : BB → Nat → BB) (q : Nat → Bool) (t : Nat)
    (hf : ∀ acc sq, testBit (f acc sq) t = (testBit acc t || q sq)) (l : List Nat) (acc : BB) :
    testBit (l.foldl f acc) t = (testBit acc t || l.any q) := by
  induction l generalizing acc with
  | nil => simp
  | cons a l ih => rw [List.foldl_cons, ih, hf, List.any_cons, Bool.or_assoc]

theorem any_congr' {α} (l : List α) (p q : α → Bool) (h : ∀ a ∈ l, p a = q a) : l.any p = l.any q := by
  induction l with
  | nil => rfl
  | cons a l ih =>
    rw [List.any_cons, List.any_cons, h a List.mem_cons_self, ih fun x hx => h x (List.mem_cons_of_mem _ hx)]

theorem attackedSquares_bit (b : Board) (c : Color) (t : Nat) (ht : t < 64) :
    testBit (b.attackedSquares c) t = (List.range 64).any fun sq =>
      testBit (sameColorBB b c.opp) sq &&
        match b.pieceAt (Square.ofIdx sq) with
        | some p => testBit (kindAttacks p sq b.bbs.all) t
        | none => false := by
  have hdef : b.attackedSquares c = (List.range 64).foldl (fun acc sq =>
        if sameColorBB b c.opp &&& bit sq == 0 then acc
        else match b.pieceAt (Square.ofIdx sq) with
          | some p => acc ||| kindAttacks p sq b.bbs.all
          | none => acc) 0 := by
    cases c <;> rfl
  rw [hdef]
  -- the fold only looks at squares of the range; prove the step equation for those
  have key : ∀ (l : List Nat), (∀ sq ∈ l, sq < 64) → ∀ acc : BB,
      testBit (l.foldl (fun acc sq =>
        if sameColorBB b c.opp &&& bit sq == 0 then acc
        else match b.pieceAt (Square.ofIdx sq) with
          | some p => acc ||| kindAttacks p sq b.bbs.all
          | none => acc) acc) t =
      (testBit acc t || l.any fun sq =>
        testBit (sameColorBB b c.opp) sq &&
          match b.pieceAt (Square.ofIdx sq) with
          | some p => testBit (kindAttacks p sq b.bbs.all) t
          | none => false) := by
    intro l
    induction l with
    | nil => intro _ acc; simp
    | cons a l ih =>
      intro hl acc
      have ha : a < 64 := hl a List.mem_cons_self
      rw [List.foldl_cons, ih (fun x hx => hl x (List.mem_cons_of_mem _ hx)), List.any_cons, ← Bool.or_assoc]
      congr 1
      rw [and_bit_eq_zero _ _ ha]
      cases hb : testBit (sameColorBB b c.opp) a
      · simp
      · cases hp : b.pieceAt (Square.ofIdx a) with
        | none => simp
        | some p => simp [testBit_or _ _ _ ht]
  rw [key _ (fun sq h => List.mem_range.mp h), testBit_zero t ht, Bool.false_or]

theorem attacked_exact' (b : Board) (hw : WF b) (c : Color) (t : Nat) (ht : t < 64) :
    testBit (b.attackedSquares c) t = Rules.attacked (abs b) t (absColor c.opp) := by
  rw [attackedSquares_bit b c t ht]
  unfold Rules.attacked Rules.squares
  apply any_congr'
  intro sq hsq
  rw [List.mem_range] at hsq
  have hs := ofIdx_IR sq hsq
  have hcol := sameColor_bit b hw.bbs c.opp (Square.ofIdx sq) hs
  rw [ofIdx_idx] at hcol
  rw [hcol, abs_at b sq hsq]
  cases hp : b.pieceAt (Square.ofIdx sq) with
  | none => rfl
  | some k =>
    simp only [Option.map_some]
    rw [exact_contains (kindAttacks_exact b hw.bbs k sq hsq) t ht]
    show _ = ((absColor k.color == absColor c.opp) && _)
    rw [absColor_beq]

/-! ### `is_in_check` -/

theorem king_bb (b : Board) (hw : WF b) (c : Color) (s : Square) (hs : IR s)
    (hk : b.pieceAt s = some ⟨.king, c⟩)
    (hu : ∀ t : Square, IR t → b.pieceAt t = some ⟨.king, c⟩ → t = s) :
    b.bbs.get ⟨.king, c⟩ = bit s.idx := by
  apply eq_of_testBit
  intro i hi
  rw [testBit_bit _ _ hi (idx_lt s hs)]
  have h1 := pieceAt_iff b.bbs hw.bbs _ (ofIdx_IR i hi) ⟨.king, c⟩
  rw [ofIdx_idx] at h1
  unfold has at h1
  rw [Bool.eq_iff_iff, ← h1]
  simp only [decide_eq_true_eq]
  constructor
  · intro h
    have := hu _ (ofIdx_IR i hi) h
    rw [← this, ofIdx_idx]
  · intro h
    subst h
    rw [ofIdx_of_idx s hs]; exact hk

theorem kings_of_present (b : Board) (hk : KingsPresent b) (c : Color) :
    ∃ s : Square, IR s ∧ b.pieceAt s = some ⟨.king, c⟩ ∧
      ∀ t : Square, IR t → b.pieceAt t = some ⟨.king, c⟩ → t = s := by
  obtain ⟨⟨sw, w1, w2, w3⟩, ⟨sb, b1, b2, b3⟩, hu⟩ := hk
  cases c
  · exact ⟨sw, ⟨w1, w2⟩, w3, fun t ht h => hu t sw ht.1 ht.2 w1 w2 _ h w3⟩
  · exact ⟨sb, ⟨b1, b2⟩, b3, fun t ht h => hu t sb ht.1 ht.2 b1 b2 _ h b3⟩

theorem kingSq_abs (b : Board) (c : Color) (s : Square) (hs : IR s)
    (hk : b.pieceAt s = some ⟨.king, c⟩)
    (hu : ∀ t : Square, IR t → b.pieceAt t = some ⟨.king, c⟩ → t = s) :
    Rules.kingSq (abs b) (absColor c) = some s.idx := by
  unfold Rules.kingSq Rules.squares
  apply find?_unique
  · exact List.mem_range.mpr (idx_lt s hs)
  · rw [abs_at_sq b s hs, hk]; simp [absPiece, absPK]
  · intro x hx hp
    rw [List.mem_range] at hx
    rw [abs_at b x hx] at hp
    have hp' : (b.pieceAt (Square.ofIdx x)).map absPiece = some (absPiece ⟨.king, c⟩) := by
      simpa [absPiece, absPK] using hp
    cases hq : b.pieceAt (Square.ofIdx x) with
    | none => rw [hq] at hp'; cases hp'
    | some k =>
      rw [hq] at hp'
      simp only [Option.map_some, Option.some.injEq] at hp'
      rw [absPiece_inj] at hp'
      subst hp'
      have := hu _ (ofIdx_IR x hx) hq
      rw [← this, ofIdx_idx]

theorem inCheck_exact' (b : Board) (hw : WF b) (hk : KingsPresent b) (c : Color) :
    b.isInCheck c = Rules.inCheck (abs b) (absColor c) := by
  obtain ⟨s, hs, hks, hu⟩ := kings_of_present b hk c
  have hi := idx_lt s hs
  unfold Rules.inCheck
  rw [kingSq_abs b c s hs hks hu]
  simp only
  rw [← absColor_opp, ← attacked_exact' b hw c s.idx hi]
  have hkb := king_bb b hw c s hs hks hu
  have hdef : b.isInCheck c = (b.bbs.get ⟨.king, c⟩ &&& b.attackedSquares c != 0) := by
    cases c <;> rfl
  rw [hdef, hkb]
  exact bit_and_ne_zero _ _ hi

/-! ### `bitIndices` -/

theorem mem_bitIndices (x : BB) (s : Nat) : s ∈ bitIndices x ↔ s < 64 ∧ testBit x s = true := by
  unfold bitIndices
  rw [List.mem_filter, List.mem_range]

theorem nodup_bitIndices (x : BB) : (bitIndices x).Nodup := nodup_filter _ List.nodup_range

/-- the set bits of `att &&& m`, as a list, are the spec's attack list filtered by `m` (up to order) -/
theorem bitIndices_perm (att m : BB) (spec : List Nat) (hex : Exact att spec) (hnd : spec.Nodup)
    (hlt : ∀ t ∈ spec, t < 64) :
    (bitIndices (att &&& m)).Perm (spec.filter fun t => testBit m t) := by
  apply perm_of_nodup_of_mem_iff (nodup_bitIndices _) (nodup_filter _ hnd)
  intro s
  rw [mem_bitIndices, List.mem_filter]
  constructor
  · rintro ⟨hs, hb⟩
    rw [testBit_and _ _ _ hs, Bool.and_eq_true] at hb
    exact ⟨(hex s hs).mp hb.1, hb.2⟩
  · rintro ⟨hs, hb⟩
    have hs' := hlt s hs
    refine ⟨hs', ?_⟩
    rw [testBit_and _ _ _ hs', Bool.and_eq_true]
    exact ⟨(hex s hs').mpr hs, hb⟩

/-- `absMove` does not look at the `captured` field that `get_all_moves` fills in -/
theorem absMove_captured (m : Ply) (c : Option Kind) : absMove { m with captured := c } = absMove m := rfl

end RCE.Proofs.MoveGen
