import RCE.Proofs.MoveGenKing
import RCE.Proofs.MoveGenPawn
/-! C01, part 4: pseudo-legal generation square by square — `get_all_moves` read as (from, to, promotion)
    triples is a duplicate-free permutation of `Rules.pseudoMoves`. -/
namespace RCE.Proofs.MoveGen
open RCE RCE.Proofs.BoardWF RCE.Proofs.Abs RCE.Proofs.BoardPBB RCE.Proofs.BoardBits RCE.Proofs.Sliders
open RCE.Proofs.MoveGenList

/-- what `Rules.pseudoMoves` offers for the piece `pc` standing on `sq` -/
def specPiece (p : Rules.Pos) (sq : Nat) (pc : Rules.Piece) : List Rules.Move :=
  match pc.kind with
  | .pawn => Rules.pawnMoves p sq pc.color
  | .king => ((Rules.attacksFrom p sq pc).filter (notOwn p pc.color)).map (fun t => ⟨sq, t, none⟩)
               ++ Rules.castleMoves p pc.color
  | _ => ((Rules.attacksFrom p sq pc).filter (notOwn p pc.color)).map fun t => ⟨sq, t, none⟩

theorem pseudoMoves_eq (p : Rules.Pos) : Rules.pseudoMoves p =
    (List.range 64).flatMap fun sq => match p.at sq with
      | some pc => if pc.color != p.turn then [] else specPiece p sq pc
      | none => [] := by
  unfold Rules.pseudoMoves Rules.squares
  rfl

theorem simple_kind (b : Board) (hw : WF b) (i : Nat) (hi : i < 64) (p : Kind)
    (hp : b.pieceAt (Square.ofIdx i) = some p)
    (hk : kindMoveset p (Square.ofIdx i) b =
      (simpleMoveset (kindAttacks p i b.bbs.all) (Square.ofIdx i) b p).filter rangeOK)
    (hs : specPiece (abs b) i (absPiece p) =
      ((Rules.attacksFrom (abs b) i (absPiece p)).filter (notOwn (abs b) (absPiece p).color)).map
        fun t => ⟨i, t, none⟩) :
    ((kindMoveset p (Square.ofIdx i) b).map absMove).Perm (specPiece (abs b) i (absPiece p)) ∧
    ((kindMoveset p (Square.ofIdx i) b).map absMove).Nodup ∧
    (∀ mv ∈ (kindMoveset p (Square.ofIdx i) b).map absMove, mv.src = i) := by
  rw [hk, hs]
  obtain ⟨s1, s2, s3⟩ := simple_perm b hw i hi p hp _ (kindAttacks_exact b hw.bbs p i hi)
  exact ⟨s1, s2, fun mv h => (s3 mv h).1⟩

theorem kind_perm (b : Board) (hw : WF b) (i : Nat) (hi : i < 64) (p : Kind)
    (hp : b.pieceAt (Square.ofIdx i) = some p) (hc : p.color = b.turn) :
    ((kindMoveset p (Square.ofIdx i) b).map absMove).Perm (specPiece (abs b) i (absPiece p)) ∧
    ((kindMoveset p (Square.ofIdx i) b).map absMove).Nodup ∧
    (∀ mv ∈ (kindMoveset p (Square.ofIdx i) b).map absMove, mv.src = i) := by
  rcases p with ⟨pk, c⟩
  cases pk
  · exact pawn_perm b hw i hi c hp hc
  · exact king_perm b hw i hi c hp hc
  all_goals
    apply simple_kind b hw i hi _ hp
    · rw [kindMoveset_eq, ofIdx_idx]; rfl
    · rfl

/-- pseudo-legal exactness needs only the representation invariant -/
theorem pseudo_exact_wf (b : Board) (hw : WF b) :
    (b.allMoves.map absMove).Perm (Rules.pseudoMoves (abs b)) ∧ (b.allMoves.map absMove).Nodup := by
  rw [pseudoMoves_eq]
  unfold Board.allMoves
  rw [List.map_flatMap]
  -- per square
  have key : ∀ i ∈ List.range 64,
      let L := List.map absMove (match b.pieceAt (Square.ofIdx i) with
        | some p =>
          if b.turn != p.color then [] else
          (kindMoveset p (Square.ofIdx i) b).map fun m =>
            if m.enPassant then { m with captured := b.pieceAt ⟨m.start.rank, m.dest.file⟩ }
            else { m with captured := b.pieceAt m.dest }
        | none => [])
      L.Perm (match (abs b).at i with
        | some pc => if pc.color != (abs b).turn then [] else specPiece (abs b) i pc
        | none => []) ∧ L.Nodup ∧ ∀ mv ∈ L, mv.src = i := by
    intro i hi
    rw [List.mem_range] at hi
    rw [abs_at b i hi]
    cases hp : b.pieceAt (Square.ofIdx i) with
    | none => exact ⟨List.Perm.refl _, List.Pairwise.nil, fun _ h => by cases h⟩
    | some p =>
      simp only [Option.map_some]
      have hcol : ((absPiece p).color != (abs b).turn) = (b.turn != p.color) := by
        show (absColor p.color != absColor b.turn) = _
        unfold bne; rw [absColor_beq]
        cases p.color <;> cases b.turn <;> rfl
      rw [hcol]
      by_cases hc : p.color = b.turn
      · have hne : (b.turn != p.color) = false := by rw [hc]; simp
        rw [hne]
        simp only [Bool.false_eq_true, if_false]
        rw [List.map_map]
        have hfix : (absMove ∘ fun m : Ply =>
            if m.enPassant then { m with captured := b.pieceAt ⟨m.start.rank, m.dest.file⟩ }
            else { m with captured := b.pieceAt m.dest }) = absMove := by
          funext m
          simp only [Function.comp]
          split <;> rfl
        rw [hfix]
        exact kind_perm b hw i hi p hp hc
      · have hne : (b.turn != p.color) = true := by
          simp only [bne_iff_ne, ne_eq]; exact fun e => hc e.symm
        rw [hne]
        simp only [if_true]
        exact ⟨List.Perm.refl _, List.Pairwise.nil, fun _ h => by cases h⟩
  constructor
  · exact perm_flatMap_congr _ _ _ fun i hi => (key i hi).1
  · apply nodup_flatMap _ _ List.nodup_range (fun i hi => (key i hi).2.1)
    intro a ha a' ha' hne x hx y hy e
    apply hne
    rw [← (key a ha).2.2 x hx, ← (key a' ha').2.2 y hy, e]

theorem pseudo_exact' (b : Board) (hl : Legal b) :
    (b.allMoves.map absMove).Perm (Rules.pseudoMoves (abs b)) ∧ (b.allMoves.map absMove).Nodup :=
  pseudo_exact_wf b hl.wf

end RCE.Proofs.MoveGen
