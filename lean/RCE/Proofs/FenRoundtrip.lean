import RCE.Proofs.FenPlacement
import RCE.Proofs.BoardKey
/-! C07: `Board.fromFen?` reads back what `Rules.render` writes.

    * `FenFields.lean`   : `splitWs` on space-separated fields, side / castling / en-passant / counters;
    * `FenPlacement.lean`: the placement field (`placementAux` on `renderPlacement`, the bits written,
                           `PBB.WF` and the mailbox view after `withUnions`);
    * this file          : the reader decomposed into its field readers (`fromFen_some`), the loaded board
                           (`loaded`), its abstraction, its well-formedness, and the start position. -/
namespace RCE.Proofs.FenRoundtrip
open RCE RCE.Proofs.Abs RCE.Proofs.BoardWF RCE.Proofs.BoardPBB RCE.Proofs.FenFields RCE.Proofs.FenPlacement

/-! ### the definitions used by `RCE/Props/C07.lean` -/

/-- a position that FEN text can describe: 64 squares, an en-passant *file*, `u16` counters.
    Nothing about legality (kings, checks, pawns on the back ranks …) is required. -/
structure ValidPos (p : Rules.Pos) : Prop where
  size : p.board.size = 64
  ep : ∀ f, p.ep = some f → f < 8
  half : p.half < 65536
  full : p.full < 65536

/-- what makes the loaded board satisfy the representation invariant `WF`: a claimed right has its rook on
    the corner and no king of that colour off e1 / e8 (`RightsConsistent`, `KingsHome`); the pawn that made
    the double step stands on the 5th / 4th rank of the en-passant file and the square behind it is empty
    (`EpConsistent`). -/
structure ConsistentPos (p : Rules.Pos) : Prop where
  wk : p.wk = true → p.at 7 = some ⟨.white, .rook⟩
  wq : p.wq = true → p.at 0 = some ⟨.white, .rook⟩
  bk : p.bk = true → p.at 63 = some ⟨.black, .rook⟩
  bq : p.bq = true → p.at 56 = some ⟨.black, .rook⟩
  wking : (p.wk = true ∨ p.wq = true) → ∀ sq, sq < 64 → p.at sq = some ⟨.white, .king⟩ → sq = 4
  bking : (p.bk = true ∨ p.bq = true) → ∀ sq, sq < 64 → p.at sq = some ⟨.black, .king⟩ → sq = 60
  ep : ∀ f, p.ep = some f →
    p.at ((if p.turn = .white then 4 else 3) * 8 + f) = some ⟨p.turn.opp, .pawn⟩ ∧
    p.at ((if p.turn = .white then 5 else 2) * 8 + f) = none

/-- the 4-field form of the FEN text (no counters) -/
def render4 (p : Rules.Pos) : List Char :=
  Rules.renderPlacement p ++ [' '] ++ [if p.turn == .white then 'w' else 'b'] ++ [' '] ++ Rules.renderCastling p
    ++ [' '] ++ Rules.renderEp p

/-! ### the reader, field by field -/

def readSide (f1 : List Char) : Option Color :=
  match f1.headD 'w' with
  | 'w' => some Color.white | 'b' => some Color.black | _ => none

/-- the synthetic undo record of `history(builder)` -/
def rec0 (turn : Color) (rights : Rights) (ep : Option Nat) (half : Nat) : Ply :=
  let r : Ply := match ep with
    | some file =>
      (match turn with
       | .white => { mkPly ⟨1, file⟩ ⟨3, file⟩ ⟨.pawn, .white⟩ with isDoublePush := true }
       | .black => { mkPly ⟨6, file⟩ ⟨4, file⟩ ⟨.pawn, .black⟩ with isDoublePush := true })
    | none => mkPly ⟨0, 0⟩ ⟨0, 0⟩ ⟨.pawn, turn⟩
  { r with rights := rights, clock := half }

/-- the board `from_fen` builds from the values of the six fields -/
def mkBoard (bbs : PBB) (turn : Color) (rights : Rights) (ep : Option Nat) (half full : Nat) : Board :=
  let b : Board := { turn := turn, fullmove := full, ep := ep, history := [rec0 turn rights ep half], posHist := [],
                     bbs := bbs.withUnions, zkey := 0 }
  { b with zkey := b.scratchKey }

theorem fromFen_some (s f0 f1 f2 f3 : List Char) (rest : List (List Char))
    (hs : splitWs s = f0 :: f1 :: f2 :: f3 :: rest)
    (bbs : PBB) (h0 : placementAux f0 0 PBB.empty = some bbs)
    (turn : Color) (h1 : readSide f1 = some turn)
    (rights : Rights) (h2 : readRights f2 = some rights)
    (ep : Option Nat) (h3 : readEp f3 = some ep)
    (half : Nat) (h4 : parseU16? ((f0 :: f1 :: f2 :: f3 :: rest).getD 4 ['0']) = some half)
    (full : Nat) (h5 : parseU16? ((f0 :: f1 :: f2 :: f3 :: rest).getD 5 ['1']) = some full) :
    Board.fromFen? s = some (mkBoard bbs turn rights ep half full) := by
  unfold Board.fromFen?
  simp only [hs, List.getElem?_cons_zero, List.getElem?_cons_succ, bind, Option.bind_some, h0, h4, h5]
  generalize hr : List.foldl _ (some (Rights.mk false false false false)) f2 = r
  have hr' : r = some rights := hr.symm.trans h2
  subst hr'
  simp only [Option.bind_some]
  unfold readSide at h1
  unfold readEp at h3
  generalize f1.headD 'w' = c1 at h1 ⊢
  generalize f3.headD '-' = c3 at h3 ⊢
  split at h1
  · injection h1 with h1; subst h1
    split at h3
    · injection h3 with h3; subst h3
      rfl
    · split at h3
      · injection h3 with h3; subst h3
        rename_i hc
        simp only [hc, and_self, if_true]; rfl
      · cases h3
  · injection h1 with h1; subst h1
    split at h3
    · injection h3 with h3; subst h3
      rfl
    · split at h3
      · injection h3 with h3; subst h3
        rename_i hc
        simp only [hc, and_self, if_true]; rfl
      · cases h3
  · cases h1

/-! ### the loaded board -/

def rightsOf (p : Rules.Pos) : Rights := ⟨p.wk, p.wq, p.bk, p.bq⟩

/-- the board loaded from the FEN of `p` with the given counters -/
def loaded (p : Rules.Pos) (half full : Nat) : Board :=
  mkBoard (placed p) (concColor p.turn) (rightsOf p) p.ep half full

theorem sideChar_eq (p : Rules.Pos) : (if p.turn == .white then 'w' else 'b') = sideChar p := rfl

theorem side_read' (p : Rules.Pos) : readSide [sideChar p] = some (concColor p.turn) := by
  unfold readSide sideChar
  cases p.turn <;> rfl

theorem render_eq (p : Rules.Pos) :
    Rules.render p = Rules.renderPlacement p ++ ' ' :: ([sideChar p] ++ ' ' :: (Rules.renderCastling p ++ ' ' ::
      (Rules.renderEp p ++ ' ' :: (Rules.renderNat p.half ++ ' ' :: Rules.renderNat p.full)))) := by
  unfold Rules.render
  simp [sideChar]

theorem render4_eq (p : Rules.Pos) :
    render4 p = Rules.renderPlacement p ++ ' ' :: ([sideChar p] ++ ' ' :: (Rules.renderCastling p ++ ' ' ::
      Rules.renderEp p)) := by
  unfold render4
  simp [sideChar]

theorem split_render (p : Rules.Pos) (hv : ValidPos p) :
    splitWs (Rules.render p) = Rules.renderPlacement p :: [sideChar p] :: Rules.renderCastling p :: Rules.renderEp p ::
      [Rules.renderNat p.half, Rules.renderNat p.full] := by
  rw [render_eq,
    splitWs_cons _ _ (placement_noWs p) (placement_ne p),
    splitWs_cons _ _ (side_noWs p) (by simp),
    splitWs_cons _ _ (castling_noWs p) (castling_ne p),
    splitWs_cons _ _ (ep_noWs p hv.ep) (ep_ne p),
    splitWs_cons _ _ (renderNat_noWs _) (renderNat_ne _),
    splitWs_single _ (renderNat_noWs _) (renderNat_ne _)]

theorem split_render4 (p : Rules.Pos) (hv : ValidPos p) :
    splitWs (render4 p) = Rules.renderPlacement p :: [sideChar p] :: Rules.renderCastling p :: Rules.renderEp p :: [] := by
  rw [render4_eq,
    splitWs_cons _ _ (placement_noWs p) (placement_ne p),
    splitWs_cons _ _ (side_noWs p) (by simp),
    splitWs_cons _ _ (castling_noWs p) (castling_ne p),
    splitWs_single _ (ep_noWs p hv.ep) (ep_ne p)]

/-- the 6-field text loads to `loaded p p.half p.full` -/
theorem load6 (p : Rules.Pos) (hv : ValidPos p) :
    Board.fromFen? (Rules.render p) = some (loaded p p.half p.full) :=
  fromFen_some _ _ _ _ _ _ (split_render p hv) _ (placement_read p) _ (side_read' p) _ (castling_read p)
    _ (ep_read p hv.ep) _ (parseU16_render _ hv.half) _ (parseU16_render _ hv.full)

/-- the 4-field text loads to `loaded p 0 1` -/
theorem load4 (p : Rules.Pos) (hv : ValidPos p) :
    Board.fromFen? (render4 p) = some (loaded p 0 1) :=
  fromFen_some _ _ _ _ _ _ (split_render4 p hv) _ (placement_read p) _ (side_read' p) _ (castling_read p)
    _ (ep_read p hv.ep) _ parseU16_zero _ parseU16_one

/-! ### its abstraction -/

theorem at_eq (p : Rules.Pos) (i : Nat) (h : i < p.board.size) : p.at i = p.board[i] := by
  unfold Rules.Pos.at
  simp [Array.getD, h]

theorem loaded_pieceAt (p : Rules.Pos) (half full i : Nat) (hi : i < 64) :
    (loaded p half full).pieceAt (Square.ofIdx i) = (p.at i).map concPiece :=
  placed_pieceAt' p i hi

theorem abs_board (p : Rules.Pos) (hs : p.board.size = 64) (half full : Nat) :
    ((Array.range 64).map fun i => ((loaded p half full).pieceAt (Square.ofIdx i)).map absPiece) = p.board := by
  apply Array.ext
  · simp [hs]
  · intro i h1 h2
    have hi : i < 64 := by simpa using h1
    rw [Array.getElem_map, Array.getElem_range]
    show ((placed p).withUnions.pieceAt (Square.ofIdx i)).map absPiece = _
    rw [placed_pieceAt p i hi, at_eq p i h2]

theorem abs_loaded (p : Rules.Pos) (hs : p.board.size = 64) (half full : Nat) :
    abs (loaded p half full) = { p with half := half, full := full } := by
  have h1 : abs (loaded p half full) =
      ⟨(Array.range 64).map fun i => ((loaded p half full).pieceAt (Square.ofIdx i)).map absPiece,
       absColor (concColor p.turn), p.wk, p.wq, p.bk, p.bq, p.ep, half, full⟩ := rfl
  rw [h1, abs_board p hs, abs_concColor]

/-! ### its well-formedness -/

theorem sq_ofIdx (r f : Nat) (hf : f < 8) : (⟨r, f⟩ : Square) = Square.ofIdx (r * 8 + f) := by
  unfold Square.ofIdx
  congr 1 <;> omega

theorem conc_eq_iff (o : Option Rules.Piece) (k : Kind) : o.map concPiece = some k ↔ o = some (absPiece k) := by
  cases o with
  | none => simp
  | some pc =>
    simp only [Option.map_some, Option.some.injEq]
    exact (eq_abs_iff pc k).symm

theorem loaded_wf (p : Rules.Pos) (hc : ConsistentPos p) (hv : ValidPos p) (half full : Nat) :
    WF (loaded p half full) := by
  have hpa := loaded_pieceAt p half full
  refine ⟨placed_wf p, by simp [loaded, mkBoard], ?_, ?_, ?_⟩
  · -- rights
    have hr : (loaded p half full).rights = rightsOf p := rfl
    refine ⟨fun h => ?_, fun h => ?_, fun h => ?_, fun h => ?_⟩
    · rw [sq_ofIdx 0 7 (by omega), hpa _ (by omega), conc_eq_iff]; exact hc.wk h
    · rw [sq_ofIdx 0 0 (by omega), hpa _ (by omega), conc_eq_iff]; exact hc.wq h
    · rw [sq_ofIdx 7 7 (by omega), hpa _ (by omega), conc_eq_iff]; exact hc.bk h
    · rw [sq_ofIdx 7 0 (by omega), hpa _ (by omega), conc_eq_iff]; exact hc.bq h
  · -- kings
    refine ⟨fun h s h1 h2 hk => ?_, fun h s h1 h2 hk => ?_⟩
    · have hs : IR s := ⟨h1, h2⟩
      have hi := idx_lt s hs
      rw [← ofIdx_of_idx s hs, hpa _ hi, conc_eq_iff] at hk
      have := hc.wking h _ hi hk
      rw [← ofIdx_of_idx s hs, this]; rfl
    · have hs : IR s := ⟨h1, h2⟩
      have hi := idx_lt s hs
      rw [← ofIdx_of_idx s hs, hpa _ hi, conc_eq_iff] at hk
      have := hc.bking h _ hi hk
      rw [← ofIdx_of_idx s hs, this]; rfl
  · -- en passant
    refine ⟨?_, ?_⟩
    · show p.ep = _
      unfold Board.top loaded mkBoard rec0
      cases p.ep with
      | none => rfl
      | some f => cases p.turn <;> rfl
    · intro f hf
      have hf' : p.ep = some f := hf
      have hf8 := hv.ep f hf'
      obtain ⟨e1, e2⟩ := hc.ep f hf'
      refine ⟨hf8, ?_, ?_⟩
      · rw [sq_ofIdx _ f hf8]
        have ht : (loaded p half full).turn = concColor p.turn := rfl
        rw [ht]
        cases hturn : p.turn with
        | white =>
          rw [hturn] at e1
          simp only [concColor, if_true] at e1 ⊢
          rw [hpa _ (by omega), conc_eq_iff]; exact e1
        | black =>
          rw [hturn] at e1
          have hne : ¬ (Color.black = Color.white) := by decide
          have hne' : ¬ (Rules.Color.black = Rules.Color.white) := by decide
          simp only [concColor, hne, hne', if_false] at e1 ⊢
          rw [hpa _ (by omega), conc_eq_iff]; exact e1
      · rw [sq_ofIdx _ f hf8]
        have ht : (loaded p half full).turn = concColor p.turn := rfl
        rw [ht]
        cases hturn : p.turn with
        | white =>
          rw [hturn] at e2
          simp only [concColor, if_true] at e2 ⊢
          rw [hpa _ (by omega), e2]; rfl
        | black =>
          rw [hturn] at e2
          have hne : ¬ (Color.black = Color.white) := by decide
          have hne' : ¬ (Rules.Color.black = Rules.Color.white) := by decide
          simp only [concColor, hne, hne', if_false] at e2 ⊢
          rw [hpa _ (by omega), e2]; rfl

/-! ### the theorems of `RCE/Props/C07.lean` -/

theorem fen_roundtrip' (p : Rules.Pos) (hv : ValidPos p) :
    ∃ b, Board.fromFen? (Rules.render p) = some b ∧ abs b = p :=
  ⟨_, load6 p hv, abs_loaded p hv.size p.half p.full⟩

theorem fen_roundtrip4' (p : Rules.Pos) (hv : ValidPos p) :
    ∃ b, Board.fromFen? (render4 p) = some b ∧ abs b = { p with half := 0, full := 1 } :=
  ⟨_, load4 p hv, abs_loaded p hv.size 0 1⟩

theorem fromFen_wf' (p : Rules.Pos) (hv : ValidPos p) (hc : ConsistentPos p) (b : Board)
    (h : Board.fromFen? (Rules.render p) = some b) : WF b ∧ b.zkey = b.scratchKey := by
  refine ⟨?_, BoardKey.fromFen_key' _ b h⟩
  rw [load6 p hv] at h
  injection h with h
  subst h
  exact loaded_wf p hc hv _ _

/-- the twelve boards of the start position before the unions are computed -/
def startRaw : PBB :=
  { PBB.empty with
    wp := 0x000000000000FF00, wk := 0x10, wq := 0x08, wr := 0x81, wb := 0x24, wn := 0x42,
    bp := 0x00FF000000000000, bk := 0x1000000000000000, bq := 0x0800000000000000,
    br := 0x8100000000000000, bb := 0x2400000000000000, bn := 0x4200000000000000 }

def startChars : List Char :=
  ['r','n','b','q','k','b','n','r','/','p','p','p','p','p','p','p','p','/','8','/','8','/','8','/','8','/',
   'P','P','P','P','P','P','P','P','/','R','N','B','Q','K','B','N','R',' ','w',' ','K','Q','k','q',' ','-',' ',
   '0',' ','1']

theorem start_fen' : ∃ b, Board.fromFen? "rnbqkbnr/pppppppp/8/8/8/8/PPPPPPPP/RNBQKBNR w KQkq - 0 1".toList = some b ∧
    b.bbs = Board.start.bbs ∧ b.turn = .white ∧ b.rights = Rights.all ∧ b.ep = none := by
  have hl : "rnbqkbnr/pppppppp/8/8/8/8/PPPPPPPP/RNBQKBNR w KQkq - 0 1".toList = startChars := by decide
  rw [hl]
  have hs : splitWs startChars =
      ['r','n','b','q','k','b','n','r','/','p','p','p','p','p','p','p','p','/','8','/','8','/','8','/','8','/',
        'P','P','P','P','P','P','P','P','/','R','N','B','Q','K','B','N','R'] :: ['w'] :: ['K','Q','k','q'] :: ['-'] ::
      [['0'], ['1']] := by decide +kernel
  have h0 : placementAux ['r','n','b','q','k','b','n','r','/','p','p','p','p','p','p','p','p','/','8','/','8','/',
        '8','/','8','/','P','P','P','P','P','P','P','P','/','R','N','B','Q','K','B','N','R'] 0 PBB.empty = some startRaw := by
    decide +kernel
  refine ⟨_, fromFen_some _ _ _ _ _ _ hs startRaw h0 .white (by decide) Rights.all (by decide) none (by decide)
    0 (by decide) 1 (by decide), ?_, rfl, rfl, rfl⟩
  rfl

/-! ### non-vacuity: the start position satisfies both hypotheses -/

set_option maxRecDepth 100000 in
theorem start_valid : ValidPos (abs Board.start) := by
  refine ⟨by decide +kernel, ?_, by decide +kernel, by decide +kernel⟩
  intro f h; cases h

set_option maxRecDepth 100000 in
theorem start_consistent : ConsistentPos (abs Board.start) := by
  refine ⟨fun _ => by decide +kernel, fun _ => by decide +kernel, fun _ => by decide +kernel,
    fun _ => by decide +kernel, fun _ => by decide +kernel, fun _ => by decide +kernel, ?_⟩
  intro f h; cases h

end RCE.Proofs.FenRoundtrip
