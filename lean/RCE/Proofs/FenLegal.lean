import RCE.Proofs.MoveGenAttacks
/-! Helper for C07 (`fromFen_legal`): both kings present in the rules position a board stands for
    means both kings present on the board. -/
namespace RCE.Proofs.FenLegal
open RCE RCE.Proofs.BoardWF RCE.Proofs.Abs RCE.Proofs.BoardPBB RCE.Proofs.MoveGen

theorem king_at_of_abs (b : Board) (c : Color) (i : Nat) (hi : i < 64)
    (h : (abs b).at i = some ⟨absColor c, .king⟩) :
    b.pieceAt (Square.ofIdx i) = some ⟨.king, c⟩ := by
  rw [abs_at b i hi] at h
  cases hp : b.pieceAt (Square.ofIdx i) with
  | none => rw [hp] at h; cases h
  | some k =>
    rw [hp] at h
    have h' : absPiece k = absPiece ⟨.king, c⟩ := Option.some.inj h
    rw [(absPiece_inj _ _).mp h']

theorem abs_king_at (b : Board) (c : Color) (s : Square) (hs : IR s) (h : b.pieceAt s = some ⟨.king, c⟩) :
    (abs b).at s.idx = some ⟨absColor c, .king⟩ := by
  rw [abs_at_sq b s hs, h]; rfl

/-- one king a side in `abs b` (the three parts of `C07.SpecKings`) gives `KingsPresent b` -/
theorem kingsPresent_of_spec (b : Board)
    (h : (∃ s, s < 64 ∧ (abs b).at s = some ⟨.white, .king⟩) ∧ (∃ s, s < 64 ∧ (abs b).at s = some ⟨.black, .king⟩) ∧
      (∀ s t c, s < 64 → t < 64 → (abs b).at s = some ⟨c, .king⟩ → (abs b).at t = some ⟨c, .king⟩ → s = t)) :
    KingsPresent b := by
  obtain ⟨⟨i, hi, hw⟩, ⟨j, hj, hb⟩, hu⟩ := h
  refine ⟨⟨Square.ofIdx i, (ofIdx_IR i hi).1, (ofIdx_IR i hi).2, king_at_of_abs b .white i hi hw⟩,
    ⟨Square.ofIdx j, (ofIdx_IR j hj).1, (ofIdx_IR j hj).2, king_at_of_abs b .black j hj hb⟩, ?_⟩
  intro s t hsr hsf htr htf c h1 h2
  have hs : IR s := ⟨hsr, hsf⟩
  have ht : IR t := ⟨htr, htf⟩
  exact idx_inj s t hs ht
    (hu s.idx t.idx (absColor c) (idx_lt s hs) (idx_lt t ht) (abs_king_at b c s hs h1) (abs_king_at b c t ht h2))

end RCE.Proofs.FenLegal
