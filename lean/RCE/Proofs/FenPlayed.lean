import RCE.Model.Eval
import RCE.Proofs.FenRoundtrip
import RCE.Proofs.FenLegal
import RCE.Props.C03
import RCE.Props.C04
/-! C07, last clause: a position loaded from FEN "from then on behaves (legal moves, keys, bookkeeping)
    identically to the same position reached by play".

    * `SameNow b b'` : the two boards agree on everything the engine reads about the present position — the
      fifteen bitboards, side to move, move number, en-passant file, and of the undo stack the castling rights
      and the half-move clock of the top record.  (`SameNowK` : and the key.)  They may differ in the rest of
      the undo stack and in the repetition record, which a FEN text cannot carry.
    * `loaded_equals_played` : re-loading `Rules.render (abs b)` for a well-formed `b` gives a board `b'` with
      `SameNow b b'` (`…_key` : `SameNowK`, when `b` carries its from-scratch key).
    * `wf_consistent` : `ConsistentPos (abs b)` is a consequence of `WF b`.
      `wf_valid` : `ValidPos (abs b)` is a consequence of `WF b` **and the two `u16` bounds on the counters**;
      those are not implied by `WF` / `Legal` (the model's counters are `Nat`; FEN reading parses `u16`).
    * `sameNow_*` : every function of the present position gives the same result on both boards, and
      `SameNow` / `SameNowK` are kept by `makeMove`, hence along every continuation.
    * `reload_after_game` : all of it for a legal game from the start position. -/
namespace RCE.Proofs.FenPlayed
open RCE RCE.Proofs.BoardWF RCE.Proofs.Abs RCE.Proofs.BoardPBB RCE.Proofs.FenRoundtrip RCE.Proofs.BoardMake

/-- everything the engine reads about the present position (all fields except the two history lists, of
    which only the top record's rights and clock count) -/
def SameNow (b b' : Board) : Prop :=
  b'.bbs = b.bbs ∧ b'.turn = b.turn ∧ b'.fullmove = b.fullmove ∧ b'.ep = b.ep ∧ b'.rights = b.rights ∧
    b'.halfmove = b.halfmove

/-- `SameNow` and the same key -/
def SameNowK (b b' : Board) : Prop := SameNow b b' ∧ b'.zkey = b.zkey

theorem SameNow.refl (b : Board) : SameNow b b := ⟨rfl, rfl, rfl, rfl, rfl, rfl⟩
theorem SameNow.symm {b b' : Board} (h : SameNow b b') : SameNow b' b :=
  ⟨h.1.symm, h.2.1.symm, h.2.2.1.symm, h.2.2.2.1.symm, h.2.2.2.2.1.symm, h.2.2.2.2.2.symm⟩
theorem SameNow.trans {a b c : Board} (h : SameNow a b) (h' : SameNow b c) : SameNow a c :=
  ⟨h'.1.trans h.1, h'.2.1.trans h.2.1, h'.2.2.1.trans h.2.2.1, h'.2.2.2.1.trans h.2.2.2.1,
   h'.2.2.2.2.1.trans h.2.2.2.2.1, h'.2.2.2.2.2.trans h.2.2.2.2.2⟩

/-! ### from equal abstractions to `SameNow` -/

theorem rights_ext (r r' : Rights) (h1 : r.wk = r'.wk) (h2 : r.wq = r'.wq) (h3 : r.bk = r'.bk) (h4 : r.bq = r'.bq) :
    r = r' := by
  cases r; cases r'
  simp only at h1 h2 h3 h4
  subst h1 h2 h3 h4
  rfl

/-- `abs` exposes the mailbox: equal abstractions have the same piece on every square of the board -/
theorem pieceAt_of_abs (b b' : Board) (h : abs b' = abs b) (s : Square) (hs : IR s) : b'.pieceAt s = b.pieceAt s := by
  have h1 := MoveGen.abs_at_sq b' s hs
  have h2 := MoveGen.abs_at_sq b s hs
  rw [h] at h1
  have h3 : (b'.pieceAt s).map absPiece = (b.pieceAt s).map absPiece := h1.symm.trans h2
  revert h3
  cases b'.pieceAt s with
  | none =>
    cases b.pieceAt s with
    | none => intro _; rfl
    | some k => intro h; simp at h
  | some k' =>
    cases b.pieceAt s with
    | none => intro h; simp at h
    | some k =>
      intro h
      simp only [Option.map_some, Option.some.injEq] at h
      rw [(MoveGen.absPiece_inj _ _).mp h]

/-- `abs` forgets nothing of the present position: two well-formed boards standing for the same rules
    position are the same now.  (`abs` records `ep`, the four rights and both counters as they are, without
    normalisation; well-formedness is needed only to get from the mailbox back to the fifteen bitboards.) -/
theorem sameNow_of_abs (b b' : Board) (hw : WF b) (hw' : WF b') (h : abs b' = abs b) : SameNow b b' := by
  refine ⟨?_, ?_, ?_, ?_, ?_, ?_⟩
  · exact pbb_ext b'.bbs b.bbs hw'.bbs hw.bbs (fun s hs => pieceAt_of_abs b b' h s hs)
  · exact (MoveGen.absColor_inj _ _).mp (congrArg Rules.Pos.turn h)
  · exact congrArg Rules.Pos.full h
  · exact congrArg Rules.Pos.ep h
  · exact rights_ext _ _ (congrArg Rules.Pos.wk h) (congrArg Rules.Pos.wq h) (congrArg Rules.Pos.bk h)
      (congrArg Rules.Pos.bq h)
  · exact congrArg Rules.Pos.half h

/-! ### the hypotheses of the round trip, for well-formed boards -/

/-- `ValidPos (abs b)` for a well-formed board whose two counters fit `u16`.

    The two bounds are **not** consequences of `WF` (nor of `Legal`): the model's counters are `Nat`, `WF`
    says nothing about them, and FEN reading (`parseU16?`) rejects larger numbers — so without them the
    re-load fails (`fromFen? = none`) and the statement would be false.  The other two clauses (64 squares,
    en-passant file < 8) do follow from `WF`. -/
theorem wf_valid (b : Board) (hw : WF b) (hh : b.halfmove < 65536) (hf : b.fullmove < 65536) : ValidPos (abs b) := by
  refine ⟨?_, fun f h => (hw.ep.2 f h).1, hh, hf⟩
  simp [abs]

/-- `ConsistentPos (abs b)` is a consequence of `WF b` alone -/
theorem wf_consistent (b : Board) (hw : WF b) : ConsistentPos (abs b) := by
  obtain ⟨r1, r2, r3, r4⟩ := hw.rights
  obtain ⟨k1, k2⟩ := hw.kings
  refine ⟨fun h => ?_, fun h => ?_, fun h => ?_, fun h => ?_, fun h sq hsq hk => ?_, fun h sq hsq hk => ?_, ?_⟩
  · have := MoveGen.abs_at_sq b ⟨0, 7⟩ (by decide)
    rw [r1 h] at this; exact this
  · have := MoveGen.abs_at_sq b ⟨0, 0⟩ (by decide)
    rw [r2 h] at this; exact this
  · have := MoveGen.abs_at_sq b ⟨7, 7⟩ (by decide)
    rw [r3 h] at this; exact this
  · have := MoveGen.abs_at_sq b ⟨7, 0⟩ (by decide)
    rw [r4 h] at this; exact this
  · have hp := FenLegal.king_at_of_abs b .white sq hsq hk
    have := congrArg Square.idx (k1 h _ (ofIdx_IR sq hsq).1 (ofIdx_IR sq hsq).2 hp)
    rw [ofIdx_idx] at this; exact this
  · have hp := FenLegal.king_at_of_abs b .black sq hsq hk
    have := congrArg Square.idx (k2 h _ (ofIdx_IR sq hsq).1 (ofIdx_IR sq hsq).2 hp)
    rw [ofIdx_idx] at this; exact this
  · intro f hf
    obtain ⟨hf8, e1, e2⟩ := hw.ep.2 f hf
    have hturn : (abs b).turn = absColor b.turn := rfl
    rw [hturn]
    cases ht : b.turn with
    | white =>
      rw [ht] at e1 e2
      simp only [if_true] at e1 e2
      have a1 := MoveGen.abs_at_sq b ⟨4, f⟩ ⟨by show (_ : Nat) < 8; simp only; omega, hf8⟩
      have a2 := MoveGen.abs_at_sq b ⟨5, f⟩ ⟨by show (_ : Nat) < 8; simp only; omega, hf8⟩
      rw [e1] at a1; rw [e2] at a2
      simp only [absColor, if_true]
      exact ⟨a1, a2⟩
    | black =>
      rw [ht] at e1 e2
      have hne : ¬ (Color.black = Color.white) := by decide
      have hne' : ¬ (Rules.Color.black = Rules.Color.white) := by decide
      simp only [hne, if_false] at e1 e2
      have a1 := MoveGen.abs_at_sq b ⟨3, f⟩ ⟨by show (_ : Nat) < 8; simp only; omega, hf8⟩
      have a2 := MoveGen.abs_at_sq b ⟨2, f⟩ ⟨by show (_ : Nat) < 8; simp only; omega, hf8⟩
      rw [e1] at a1; rw [e2] at a2
      simp only [absColor, hne', if_false]
      exact ⟨a1, a2⟩

/-! ### every function of the present position agrees on boards that are the same now -/

theorem sameNow_pieceAt (b b' : Board) (h : SameNow b b') (s : Square) : b'.pieceAt s = b.pieceAt s := by
  unfold Board.pieceAt; rw [h.1]

theorem sameNow_attackedSquares (b b' : Board) (h : SameNow b b') (c : Color) :
    b'.attackedSquares c = b.attackedSquares c := by
  unfold Board.attackedSquares
  simp only [Board.pieceAt, h.1]

theorem sameNow_isInCheck (b b' : Board) (h : SameNow b b') (c : Color) : b'.isInCheck c = b.isInCheck c := by
  unfold Board.isInCheck
  simp only [sameNow_attackedSquares b b' h, h.1]

theorem sameNow_castlingAbility (b b' : Board) (h : SameNow b b') (i : Nat) :
    b'.castlingAbility i = b.castlingAbility i := by
  unfold Board.castlingAbility
  simp only [sameNow_attackedSquares b b' h, h.1, h.2.1, h.2.2.2.2.1]

theorem sameNow_sameColorBB (b b' : Board) (h : SameNow b b') (c : Color) : sameColorBB b' c = sameColorBB b c := by
  unfold sameColorBB; rw [h.1]

theorem sameNow_pawnMoveset (b b' : Board) (h : SameNow b b') (sq : Square) (c : Color) :
    pawnMoveset sq b' c = pawnMoveset sq b c := by
  unfold pawnMoveset
  simp only [sameNow_sameColorBB b b' h, h.1, h.2.2.2.1]

theorem sameNow_kingMoveset (b b' : Board) (h : SameNow b b') (sq : Square) (c : Color) :
    kingMoveset sq b' c = kingMoveset sq b c := by
  unfold kingMoveset
  simp only [sameNow_sameColorBB b b' h, sameNow_castlingAbility b b' h]

theorem sameNow_simpleMoveset (b b' : Board) (h : SameNow b b') (att : BB) (sq : Square) (pc : Kind) :
    simpleMoveset att sq b' pc = simpleMoveset att sq b pc := by
  unfold simpleMoveset
  simp only [sameNow_sameColorBB b b' h]

theorem sameNow_kindMoveset (b b' : Board) (h : SameNow b b') (k : Kind) (sq : Square) :
    kindMoveset k sq b' = kindMoveset k sq b := by
  unfold kindMoveset
  simp only [sameNow_pawnMoveset b b' h, sameNow_kingMoveset b b' h, sameNow_simpleMoveset b b' h, h.1]

/-- the pseudo-legal moves, in generation order -/
theorem sameNow_allMoves (b b' : Board) (h : SameNow b b') : b'.allMoves = b.allMoves := by
  unfold Board.allMoves
  simp only [sameNow_pieceAt b b' h, sameNow_kindMoveset b b' h, h.2.1]

theorem sameNow_evaluate (b b' : Board) (h : SameNow b b') : b'.evaluate = b.evaluate := by
  unfold Board.evaluate evalLoop
  simp only [h.1, h.2.1]

theorem sameNow_scratchKey (b b' : Board) (h : SameNow b b') : b'.scratchKey = b.scratchKey :=
  BoardKey.scratchKey_congr b' b (fun _ _ => sameNow_pieceAt b b' h _) h.2.2.2.2.1 h.2.2.2.1 h.2.1

/-- one move later the two boards are still the same now (so by induction along any continuation) -/
theorem sameNow_makeMove (b b' : Board) (h : SameNow b b') (m : Ply) : SameNow (b.makeMove m) (b'.makeMove m) := by
  obtain ⟨hb, ht, hf, he, hr, hh⟩ := h
  have hr' : b'.top.rights = b.top.rights := hr
  have hh' : b'.top.clock = b.top.clock := hh
  rw [makeMove_eq b m, makeMove_eq b' m]
  refine ⟨?_, ?_, ?_, ?_, ?_, ?_⟩
  · show castleBBS b'.turn m (pmove b'.bbs _ _ _ _ _ _) = castleBBS b.turn m (pmove b.bbs _ _ _ _ _ _)
    rw [ht, hb]
  · show b'.turn.opp = b.turn.opp
    rw [ht]
  · show (if b'.turn.opp == .white then b'.fullmove + 1 else b'.fullmove) =
      (if b.turn.opp == .white then b.fullmove + 1 else b.fullmove)
    rw [ht, hf]
  · rfl
  · show newRights m b'.top.rights = newRights m b.top.rights
    rw [hr']
  · show newClock b' m = newClock b m
    unfold newClock
    rw [hh']

/-- … and the incrementally updated keys stay equal too -/
theorem sameNowK_makeMove (b b' : Board) (h : SameNowK b b') (m : Ply) : SameNowK (b.makeMove m) (b'.makeMove m) := by
  refine ⟨sameNow_makeMove b b' h.1 m, ?_⟩
  obtain ⟨⟨hb, ht, hf, he, hr, hh⟩, hk⟩ := h
  have hr' : b'.top.rights = b.top.rights := hr
  rw [makeMove_eq b m, makeMove_eq b' m]
  show b'.zkey ^^^ ew b'.ep ^^^ _ ^^^ _ ^^^ castleW b'.turn m ^^^ rw' b'.top.rights ^^^ rw' (newRights m b'.top.rights) ^^^ zTurn
    = b.zkey ^^^ ew b.ep ^^^ _ ^^^ _ ^^^ castleW b.turn m ^^^ rw' b.top.rights ^^^ rw' (newRights m b.top.rights) ^^^ zTurn
  rw [hk, he, ht, hr']

/-- the legal moves (the filter of C02), in generation order -/
theorem sameNow_legalMovesPure (b b' : Board) (h : SameNow b b') : b'.legalMovesPure = b.legalMovesPure := by
  have hchk : ∀ (m : Ply) (c : Color), (b'.makeMove m).isInCheck c = (b.makeMove m).isInCheck c :=
    fun m c => sameNow_isInCheck _ _ (sameNow_makeMove b b' h m) c
  unfold Board.legalMovesPure
  simp only [sameNow_allMoves b b' h, hchk]

/-- the engine's own `get_legal_moves` (make / test / unmake on the live board) returns the same list -/
theorem sameNow_legalMoves (b b' : Board) (hw : WF b) (hw' : WF b') (h : SameNow b b') :
    (b'.legalMoves).1 = (b.legalMoves).1 := by
  rw [(BoardUndo.legalMoves_pure' b hw).2, (BoardUndo.legalMoves_pure' b' hw').2, sameNow_legalMovesPure b b' h]

/-- any continuation, legal or not -/
theorem sameNow_game (b b' : Board) (h : SameNow b b') (ms : List Ply) :
    SameNow (ms.foldl Board.makeMove b) (ms.foldl Board.makeMove b') := by
  induction ms generalizing b b' with
  | nil => exact h
  | cons m ms ih => exact ih _ _ (sameNow_makeMove b b' h m)

theorem sameNowK_game (b b' : Board) (h : SameNowK b b') (ms : List Ply) :
    SameNowK (ms.foldl Board.makeMove b) (ms.foldl Board.makeMove b') := by
  induction ms generalizing b b' with
  | nil => exact h
  | cons m ms ih => exact ih _ _ (sameNowK_makeMove b b' h m)

/-- a legal continuation of one is a legal continuation of the other -/
theorem sameNow_legalSeq (b b' : Board) (h : SameNow b b') (ms : List Ply) (hs : Props.C03.LegalSeq b ms) :
    Props.C03.LegalSeq b' ms := by
  induction ms generalizing b b' with
  | nil => trivial
  | cons m ms ih =>
    refine ⟨?_, ih _ _ (sameNow_makeMove b b' h m) hs.2⟩
    rw [sameNow_legalMovesPure b b' h]; exact hs.1

/-! ### re-loading the FEN text of a board -/

/-- re-loading the FEN text of a well-formed board gives the same board except for the undo stack (below
    the rights and clock of its top record), the repetition record and — unless `b` carries its
    from-scratch key, see `loaded_equals_played_key` — the key -/
theorem loaded_equals_played (b : Board) (hw : WF b) (hv : ValidPos (abs b)) (hc : ConsistentPos (abs b)) :
    ∃ b', Board.fromFen? (Rules.render (abs b)) = some b' ∧ SameNow b b' ∧ WF b' ∧ b'.zkey = b'.scratchKey := by
  obtain ⟨b', hb', ha⟩ := fen_roundtrip' (abs b) hv
  obtain ⟨hw', hk'⟩ := fromFen_wf' (abs b) hv hc b' hb'
  exact ⟨b', hb', sameNow_of_abs b b' hw hw' ha, hw', hk'⟩

/-- … and the key as well, when the played board carries its from-scratch key (C04: it always does) -/
theorem loaded_equals_played_key (b : Board) (hw : WF b) (hv : ValidPos (abs b)) (hc : ConsistentPos (abs b))
    (hk : b.zkey = b.scratchKey) :
    ∃ b', Board.fromFen? (Rules.render (abs b)) = some b' ∧ SameNowK b b' ∧ WF b' ∧ b'.zkey = b'.scratchKey := by
  obtain ⟨b', hb', hs, hw', hk'⟩ := loaded_equals_played b hw hv hc
  refine ⟨b', hb', ⟨hs, ?_⟩, hw', hk'⟩
  rw [hk', hk]; exact sameNow_scratchKey b b' hs

/-- the same with the hypotheses on `abs b` discharged: a well-formed board with a correct key whose
    counters fit `u16` -/
theorem loaded_equals_played_wf (b : Board) (hw : WF b) (hk : b.zkey = b.scratchKey)
    (hh : b.halfmove < 65536) (hf : b.fullmove < 65536) :
    ∃ b', Board.fromFen? (Rules.render (abs b)) = some b' ∧ SameNowK b b' ∧ WF b' ∧ b'.zkey = b'.scratchKey :=
  loaded_equals_played_key b hw (wf_valid b hw hh hf) (wf_consistent b hw) hk

/-! ### games from the start position -/

/-- along a legal game well-formedness and "incremental key = from-scratch key" are kept (C04, by induction) -/
theorem game_ok (b : Board) (ms : List Ply) (hw : WF b) (hk : b.zkey = b.scratchKey) (hs : Props.C03.LegalSeq b ms) :
    WF (ms.foldl Board.makeMove b) ∧ (ms.foldl Board.makeMove b).zkey = (ms.foldl Board.makeMove b).scratchKey := by
  induction ms generalizing b with
  | nil => exact ⟨hw, hk⟩
  | cons m ms ih =>
    have h1 := Props.C04.key_incremental b m hw hk (Props.C03.legal_is_generated b m hs.1)
    exact ih (b.makeMove m) h1.2 h1.1 hs.2

theorem makeMove_halfmove_le (b : Board) (m : Ply) : (b.makeMove m).halfmove ≤ b.halfmove + 1 := by
  rw [makeMove_eq b m]
  show newClock b m ≤ b.top.clock + 1
  unfold newClock
  split <;> omega

theorem makeMove_fullmove_le (b : Board) (m : Ply) : (b.makeMove m).fullmove ≤ b.fullmove + 1 := by
  rw [makeMove_eq b m]
  show (if b.turn.opp == .white then b.fullmove + 1 else b.fullmove) ≤ b.fullmove + 1
  split <;> omega

/-- each counter grows by at most one per move -/
theorem game_counters (b : Board) (ms : List Ply) :
    (ms.foldl Board.makeMove b).halfmove ≤ b.halfmove + ms.length ∧
    (ms.foldl Board.makeMove b).fullmove ≤ b.fullmove + ms.length := by
  induction ms generalizing b with
  | nil => exact ⟨Nat.le_refl _, Nat.le_refl _⟩
  | cons m ms ih =>
    have h := ih (b.makeMove m)
    have h1 := makeMove_halfmove_le b m
    have h2 := makeMove_fullmove_le b m
    simp only [List.foldl_cons, List.length_cons]
    omega

theorem start_halfmove : Board.start.halfmove = 0 := rfl
theorem start_fullmove : Board.start.fullmove = 1 := rfl

/-- End to end, in terms of the two counters: after any legal game from the start position whose counters
    still fit `u16` (the hypothesis is necessary: otherwise the FEN reader rejects the text), re-loading the
    FEN text of the position gives the same board now, with the same key, the same pseudo-legal and legal
    moves. -/
theorem reload_after_game' (ms : List Ply) (hs : Props.C03.LegalSeq Board.start ms)
    (hh : (ms.foldl Board.makeMove Board.start).halfmove < 65536)
    (hf : (ms.foldl Board.makeMove Board.start).fullmove < 65536) :
    let b := ms.foldl Board.makeMove Board.start
    ∃ b', Board.fromFen? (Rules.render (abs b)) = some b' ∧ SameNow b b' ∧ b'.zkey = b.zkey ∧
      b'.allMoves = b.allMoves ∧ b'.legalMovesPure = b.legalMovesPure := by
  intro b
  obtain ⟨hw, hk⟩ := game_ok Board.start ms Props.C04.start_ok.2 Props.C04.start_ok.1 hs
  obtain ⟨b', hb', ⟨hsn, hkk⟩, _, _⟩ := loaded_equals_played_wf b hw hk hh hf
  exact ⟨b', hb', hsn, hkk, sameNow_allMoves b b' hsn, sameNow_legalMovesPure b b' hsn⟩

/-- End to end, in terms of the length of the game: fewer than 65535 plies keep both counters inside `u16`
    (clock ≤ number of plies, move number ≤ 1 + number of plies). -/
theorem reload_after_game (ms : List Ply) (hs : Props.C03.LegalSeq Board.start ms) (hlen : ms.length < 65535) :
    let b := ms.foldl Board.makeMove Board.start
    ∃ b', Board.fromFen? (Rules.render (abs b)) = some b' ∧ SameNow b b' ∧ b'.zkey = b.zkey ∧
      b'.allMoves = b.allMoves ∧ b'.legalMovesPure = b.legalMovesPure := by
  have hc := game_counters Board.start ms
  rw [start_halfmove, start_fullmove] at hc
  exact reload_after_game' ms hs (by omega) (by omega)

/-- … and from then on: after any further moves `ns` the loaded and the played board are still the same
    now with the same key; a continuation legal for one is legal for the other. -/
theorem reload_then_play (ms ns : List Ply) (hs : Props.C03.LegalSeq Board.start ms) (hlen : ms.length < 65535) :
    let b := ms.foldl Board.makeMove Board.start
    ∃ b', Board.fromFen? (Rules.render (abs b)) = some b' ∧
      SameNowK (ns.foldl Board.makeMove b) (ns.foldl Board.makeMove b') ∧
      (Props.C03.LegalSeq b ns → Props.C03.LegalSeq b' ns) := by
  intro b
  obtain ⟨b', hb', hsn, hkk, _, _⟩ := reload_after_game ms hs hlen
  exact ⟨b', hb', sameNowK_game b b' ⟨hsn, hkk⟩ ns, sameNow_legalSeq b b' hsn ns⟩

end RCE.Proofs.FenPlayed

#print axioms RCE.Proofs.FenPlayed.sameNow_of_abs
#print axioms RCE.Proofs.FenPlayed.wf_valid
#print axioms RCE.Proofs.FenPlayed.wf_consistent
#print axioms RCE.Proofs.FenPlayed.sameNow_allMoves
#print axioms RCE.Proofs.FenPlayed.sameNow_isInCheck
#print axioms RCE.Proofs.FenPlayed.sameNow_evaluate
#print axioms RCE.Proofs.FenPlayed.sameNow_scratchKey
#print axioms RCE.Proofs.FenPlayed.sameNow_makeMove
#print axioms RCE.Proofs.FenPlayed.sameNowK_makeMove
#print axioms RCE.Proofs.FenPlayed.sameNow_legalMovesPure
#print axioms RCE.Proofs.FenPlayed.sameNow_legalMoves
#print axioms RCE.Proofs.FenPlayed.sameNow_game
#print axioms RCE.Proofs.FenPlayed.sameNowK_game
#print axioms RCE.Proofs.FenPlayed.sameNow_legalSeq
#print axioms RCE.Proofs.FenPlayed.loaded_equals_played
#print axioms RCE.Proofs.FenPlayed.loaded_equals_played_key
#print axioms RCE.Proofs.FenPlayed.loaded_equals_played_wf
#print axioms RCE.Proofs.FenPlayed.game_ok
#print axioms RCE.Proofs.FenPlayed.game_counters
#print axioms RCE.Proofs.FenPlayed.reload_after_game'
#print axioms RCE.Proofs.FenPlayed.reload_after_game
#print axioms RCE.Proofs.FenPlayed.reload_then_play
