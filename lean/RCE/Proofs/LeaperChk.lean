import RCE.Model.Attacks
import RCE.Spec.Rules
/-! The kernel-evaluated leaper checks (knight, king, pawn), in a module of their own so that lake runs them
    in parallel with the slider checks.  `RCE.Proofs.Sliders` restates them with its own `exactB`
    (same body as `exactB'` here, so the restatement is by definitional unfolding). -/
namespace RCE.Proofs.LeaperChk
open RCE

def exactB' (att : BB) (spec : List Nat) : Bool := (List.range 64).all fun t => testBit att t == spec.contains t

set_option maxRecDepth 100000 in
theorem knight_all : (List.range 64).all (fun sq => exactB' (knightAttacks sq) (Rules.knightOff.filterMap fun d => Rules.step sq d.1 d.2)) = true := by
  decide +kernel

set_option maxRecDepth 100000 in
theorem king_all : (List.range 64).all (fun sq => exactB' (kingAttacks sq) (Rules.kingOff.filterMap fun d => Rules.step sq d.1 d.2)) = true := by
  decide +kernel

set_option maxRecDepth 100000 in
theorem pawn_all : [true, false].all (fun white => (List.range 64).all (fun sq => exactB' (pawnAttacks white sq)
    ([(1, Rules.pawnDir (if white then .white else .black)), (-1, Rules.pawnDir (if white then .white else .black))].filterMap
        fun d => Rules.step sq d.1 d.2))) = true := by
  decide +kernel

end RCE.Proofs.LeaperChk
