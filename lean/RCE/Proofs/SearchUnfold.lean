import RCE.Proofs.SearchDefs
/-! Unfolding lemmas for the search model (`Model/SearchCore.lean`) in projection form, the frame of
    the abort check, and membership for the move ordering.  Shared by the proofs of C09, C13, C16. -/
namespace RCE.Proofs.SearchUnfold
open RCE.Search RCE.Proofs.SearchDefs

variable {P M : Type} [DecidableEq M]
set_option linter.unusedSectionVars false

theorem ite_pred {α : Sort _} {c : Prop} [Decidable c] {a b : α} (Q : α → Prop) (ha : Q a) (hb : Q b) :
    Q (if c then a else b) := by
  split
  · exact ha
  · exact hb

/-! ### entering and leaving a child -/

/-- make the move: count the node, one ply deeper, optionally update `seldepth` -/
def enter (updSel : Bool) (st : St M) : St M :=
  let st := { st with nodes := st.nodes + 1, ply := st.ply + 1 }
  if updSel then { st with seldepth := max st.seldepth st.ply } else st

/-- take the move back -/
def leave (st : St M) : St M := { st with ply := st.ply - 1 }

/-- the PVS window logic of `pvsChild` on an entered state -/
def pvsCore (rec : P → Int → Int → Nat → St M → Int × St M) (c : P) (alpha beta : Int) (depth : Nat) (pvs : Bool)
    (st : St M) : Int × St M :=
  if pvs then
    if alpha < satNeg (rec c (satNeg alpha - 1) (satNeg alpha) (depth - 1) st).1 &&
       satNeg (rec c (satNeg alpha - 1) (satNeg alpha) (depth - 1) st).1 < beta then
      (satNeg (rec c (satNeg beta) (satNeg alpha) (depth - 1) (rec c (satNeg alpha - 1) (satNeg alpha) (depth - 1) st).2).1,
       (rec c (satNeg beta) (satNeg alpha) (depth - 1) (rec c (satNeg alpha - 1) (satNeg alpha) (depth - 1) st).2).2)
    else (satNeg (rec c (satNeg alpha - 1) (satNeg alpha) (depth - 1) st).1, (rec c (satNeg alpha - 1) (satNeg alpha) (depth - 1) st).2)
  else (satNeg (rec c (satNeg beta) (satNeg alpha) (depth - 1) st).1, (rec c (satNeg beta) (satNeg alpha) (depth - 1) st).2)

theorem pvsChild_eq (G : Game P M) (rec : P → Int → Int → Nat → St M → Int × St M) (p : P) (m : M) (alpha beta : Int)
    (depth : Nat) (pvs updSel : Bool) (st : St M) :
    pvsChild G rec p m alpha beta depth pvs updSel st =
      ((pvsCore rec (G.play p m) alpha beta depth pvs (enter updSel st)).1,
       leave (pvsCore rec (G.play p m) alpha beta depth pvs (enter updSel st)).2) := by
  unfold pvsChild pvsCore enter leave
  cases pvs <;> simp only [Bool.false_eq_true, if_false, if_true]

/-! ### loop results -/

def _root_.RCE.Search.QLoop.st : QLoop M → St M
  | .cut st => st
  | .done _ st => st

def _root_.RCE.Search.Loop.st : Loop M → St M
  | .abort st => st
  | .cut st => st
  | .done _ _ _ st => st

def _root_.RCE.Search.RootLoop.st : RootLoop M → St M
  | .abort st => st
  | .done _ _ _ st => st

/-! ### equations -/

theorem qKids_nil (G : Game P M) (rec : P → Int → Int → St M → Int × St M) (p : P) (alpha beta : Int) (st : St M) :
    qKids G rec p [] alpha beta st = .done alpha st := rfl

theorem qKids_cons (G : Game P M) (rec : P → Int → Int → St M → Int × St M) (p : P) (m : M) (ms : List M)
    (alpha beta : Int) (st : St M) :
    qKids G rec p (m :: ms) alpha beta st =
      if !G.legal p m then qKids G rec p ms alpha beta st else
      let r := rec (G.play p m) (satNeg beta) (satNeg alpha) (enter true st)
      if satNeg r.1 ≥ beta then .cut (leave r.2)
      else if satNeg r.1 > alpha then qKids G rec p ms (satNeg r.1) beta (leave r.2)
      else qKids G rec p ms alpha beta (leave r.2) := by
  simp only [qKids, enter, leave, if_true]

theorem quiesce_zero (env : Env) (G : Game P M) (p : P) (alpha beta : Int) (st : St M) :
    quiesce env G 0 p alpha beta st = (0, st) := rfl

theorem quiesce_succ (env : Env) (G : Game P M) (fuel : Nat) (p : P) (alpha beta : Int) (st : St M) :
    quiesce env G (fuel + 1) p alpha beta st =
      let c := abortCheck env st
      if c.1 then (0, c.2) else
      if G.eval p ≥ beta then (beta, c.2) else
      match qKids G (quiesce env G fuel) p
          (orderMoves G ((c.2.tt[G.key p]?).map (·.best)) (c.2.killers.getD c.2.ply (none, none))
            ((G.allMoves p).filter G.isCapture))
          (if G.eval p > alpha then G.eval p else alpha) beta c.2 with
      | .cut st => (beta, st)
      | .done alpha st => (alpha, st) := by
  simp only [quiesce]
  rfl

theorem abKids_nil (env : Env) (G : Game P M) (rec : P → Int → Int → Nat → St M → Int × St M) (p : P) (depth : Nat)
    (alpha beta : Int) (best : M) (pvs : Bool) (n : Nat) (st : St M) :
    abKids env G rec p depth [] alpha beta best pvs n st = .done alpha best n st := rfl

theorem abKids_cons (env : Env) (G : Game P M) (rec : P → Int → Int → Nat → St M → Int × St M) (p : P) (depth : Nat)
    (m : M) (ms : List M) (alpha beta : Int) (best : M) (pvs : Bool) (n : Nat) (st : St M) :
    abKids env G rec p depth (m :: ms) alpha beta best pvs n st =
      if !G.legal p m then abKids env G rec p depth ms alpha beta best pvs n st else
      let r := pvsChild G rec p m alpha beta depth pvs true st
      let c := abortCheck env r.2
      if c.1 then .abort c.2 else
      if r.1 ≥ beta then .cut (storeKillers G m (c.2.insert (G.key p) ⟨r.1, depth, .lower, m⟩ 2))
      else if r.1 > alpha then abKids env G rec p depth ms r.1 beta m true (n + 1) c.2
      else abKids env G rec p depth ms alpha beta best pvs (n + 1) c.2 := by
  simp only [abKids]

/-- the part of `ab` after the cache probe -/
def abBody (env : Env) (G : Game P M) (fuel : Nat) (p : P) (alpha0 : Int) (depth0 : Nat) (alpha beta : Int) (st : St M) :
    Int × St M :=
  let depth := if G.inCheck p then depth0 + 1 else depth0
  if depth = 0 then quiesce env G (fuel + 1) p alpha beta st else
  match abKids env G (ab env G fuel) p depth
      (orderMoves G ((st.tt[G.key p]?).map (·.best)) (st.killers.getD st.ply (none, none)) (G.allMoves p))
      alpha beta ((G.allMoves p).headD G.defaultMove) false 0 st with
  | .abort st => (0, st)
  | .cut st => (beta, st)
  | .done alpha best n st =>
    if n = 0 then (if G.inCheck p then (MINS + st.ply, st) else (0, st))
    else (alpha, st.insert (G.key p) ⟨alpha, depth, if alpha ≤ alpha0 then .upper else .exact, best⟩ 3)

/-- the state the cache probe of `ab` sees -/
def probeSt (env : Env) (st : St M) : St M := if env.cacheOff then { st with tt := {} } else st

theorem ab_zero (env : Env) (G : Game P M) (p : P) (alpha beta : Int) (depth : Nat) (st : St M) :
    ab env G 0 p alpha beta depth st = (0, st) := rfl

theorem ab_succ (env : Env) (G : Game P M) (fuel : Nat) (p : P) (alpha0 beta0 : Int) (depth : Nat) (st : St M) :
    ab env G (fuel + 1) p alpha0 beta0 depth st =
      let c := abortCheck env st
      if c.1 then (0, c.2) else
      if G.fifty p then (0, c.2) else
      if G.repeated p then (0, c.2) else
      match probe (probeSt env c.2).tt (G.key p) depth alpha0 beta0 with
      | .inl s => (s, probeSt env c.2)
      | .inr (alpha, beta) => abBody env G fuel p alpha0 depth alpha beta (probeSt env c.2) := by
  simp only [ab, abBody, probeSt]
  rfl

theorem rootKids_nil (env : Env) (G : Game P M) (rec : P → Int → Int → Nat → St M → Int × St M) (p : P) (depth : Nat)
    (alpha : Int) (best : M) (pvs : Bool) (n : Nat) (st : St M) :
    rootKids env G rec p depth [] alpha best pvs n st = .done alpha best n st := rfl

/-- the abort branch of the root loop -/
def rootAbort (alpha : Int) (best : M) (st : St M) : St M :=
  if (match st.bestScore with | some s => decide (alpha > s) | none => false)
  then { st with bestScore := some alpha, bestMove := some best } else st

theorem rootKids_cons (env : Env) (G : Game P M) (rec : P → Int → Int → Nat → St M → Int × St M) (p : P) (depth : Nat)
    (m : M) (ms : List M) (alpha : Int) (best : M) (pvs : Bool) (n : Nat) (st : St M) :
    rootKids env G rec p depth (m :: ms) alpha best pvs n st =
      if !G.legal p m then rootKids env G rec p depth ms alpha best pvs n st else
      let r := pvsChild G rec p m alpha MAXS depth pvs false st
      let c := abortCheck env r.2
      if c.1 then .abort (rootAbort alpha best c.2)
      else if r.1 > alpha then rootKids env G rec p depth ms r.1 m true (n + 1) c.2
      else rootKids env G rec p depth ms alpha best pvs (n + 1) c.2 := by
  simp only [rootKids, rootAbort]
  rfl

/-- the end of `abStart`: the completed iteration is saved unless an abort check fires -/
def rootSave (env : Env) (G : Game P M) (p : P) (depth : Nat) (alpha : Int) (best : M) (st : St M) : St M :=
  if (abortCheck env st).1 then (abortCheck env st).2 else
  { (abortCheck env st).2.insert (G.key p) ⟨alpha, depth, .exact, best⟩ 1 with bestScore := some alpha, bestMove := some best }

theorem abStart_eq (env : Env) (G : Game P M) (p : P) (depth : Nat) (st : St M) :
    abStart env G p depth st =
      match G.allMoves p with
      | [] => st
      | m0 :: _ =>
        match rootKids env G (ab env G 255) p depth
            (orderMoves G ((st.tt[G.key p]?).map (·.best)) (st.killers.getD st.ply (none, none)) (G.allMoves p))
            MINS m0 false 0 st with
        | .abort st => st
        | .done alpha best n st => if n = 0 then st else rootSave env G p depth alpha best st := by
  unfold abStart rootSave
  cases G.allMoves p with
  | nil => rfl
  | cons m0 t =>
    simp only []
    generalize rootKids env G (ab env G 255) p depth _ MINS m0 false 0 st = r
    cases r with
    | abort s => rfl
    | done a b n s =>
      simp only []

theorem iterate_zero (env : Env) (G : Game P M) (p : P) (maxDepth d : Nat) (st : St M) (infos : List (InfoLine M)) :
    iterate env G p maxDepth 0 d st infos = (st, infos) := rfl

theorem iterate_succ (env : Env) (G : Game P M) (p : P) (maxDepth fuel d : Nat) (st : St M) (infos : List (InfoLine M)) :
    iterate env G p maxDepth (fuel + 1) d st infos =
      if d > maxDepth then (st, infos) else
      let c := abortCheck env (abStart env G p d st)
      if c.1 then (c.2, infos) else
      iterate env G p maxDepth fuel (d + 1) c.2 (infos ++ [infoLine d c.2 (getPv G c.2.tt d p)]) := by
  simp only [iterate]

/-! ### the frame of the abort check -/

/-- the fields no abort check touches -/
def Frame (st st' : St M) : Prop :=
  st'.tt = st.tt ∧ st'.nodes = st.nodes ∧ st'.ply = st.ply ∧ st'.seldepth = st.seldepth ∧ st'.killers = st.killers ∧
  st'.bestMove = st.bestMove ∧ st'.bestScore = st.bestScore ∧ st'.writes = st.writes

theorem Frame.refl (st : St M) : Frame st st := ⟨rfl, rfl, rfl, rfl, rfl, rfl, rfl, rfl⟩
theorem Frame.trans {a b c : St M} (h1 : Frame a b) (h2 : Frame b c) : Frame a c := by
  unfold Frame at *; simp [h1, h2]

theorem poll_frame (env : Env) (st : St M) : Frame st (poll env st).2 := Frame.refl st

theorem limitsExceeded_frame (env : Env) (st : St M) : Frame st (limitsExceeded env st).2 := by
  unfold limitsExceeded Frame
  by_cases hp : st.ply = 255
  · simp [hp]
  rcases hn : env.limits.nodes with _ | n <;> rcases hm : env.limits.movetime with _ | mt <;>
    simp only [hp, beq_iff_eq, if_false, Bool.false_eq_true]
  · simp
  · split <;> simp
  · split <;> simp
  · split
    · simp
    · split <;> simp

theorem abortCheck_frame (env : Env) (st : St M) : Frame st (abortCheck env st).2 := by
  have h1 := poll_frame env st
  have h2 := limitsExceeded_frame env (poll env st).2
  unfold abortCheck
  simp only
  split
  · exact h1
  split
  · exact h1
  · split <;> exact h1.trans h2

end RCE.Proofs.SearchUnfold
