import RCE.Model.SearchCore
import RCE.Spec.Negamax
/-! Shared hypotheses for the search theorems (C09, C11, C12, C13, C14, C16). -/
namespace RCE.Proofs.SearchDefs
open RCE.Search

variable {P M : Type} [DecidableEq M]

/-- the wall clock never runs backwards (`Instant` is monotonic) -/
def MonoClock (env : Env) : Prop := ∀ i j, i ≤ j → env.clock i ≤ env.clock j

/-- nothing limits the search: no node budget, no move time, no clock control, no external stop -/
def Unlimited (env : Env) : Prop :=
  env.limits.nodes = none ∧ env.limits.movetime = none ∧ env.limits.timeControl = false ∧ env.stopAtPoll = 0

/-- no move time and no clock control -/
def NoTimeLimit (env : Env) : Prop := env.limits.movetime = none ∧ env.limits.timeControl = false

/-- positions of the look-ahead tree below `p`: reachable by generated moves -/
inductive Reach (G : Game P M) (p : P) : P → Prop
  | refl : Reach G p p
  | step {q : P} {m : M} : Reach G p q → m ∈ G.allMoves q → Reach G p (G.play q m)

/-- static evaluations in the tree below `p` lie strictly inside the mate bands (|eval| ≤ 32767 − 256) -/
def EvalBoundedFrom (G : Game P M) (p : P) : Prop := ∀ q, Reach G p q → -32511 ≤ G.eval q ∧ G.eval q ≤ 32511

/-- cached scores are `i16` values -/
def TableScoresOK (tt : Table M) : Prop := ∀ (k : UInt64) (e : Entry M), tt[k]? = some e → MINS ≤ e.score ∧ e.score ≤ MAXS

/-- the key determines the generated moves (part of "the 64-bit key identifies the position up to its history";
    false in general by counting — an explicit hypothesis wherever the cache is read) -/
def KeyMoves (G : Game P M) : Prop := ∀ p q, G.key p = G.key q → G.allMoves p = G.allMoves q ∧ ∀ m, G.legal p m = G.legal q m

/-- every cached move was generated in the position whose key it is stored under -/
def TableMovesOK (G : Game P M) (tt : Table M) : Prop :=
  ∀ p e, tt[G.key p]? = some e → e.best ∈ G.allMoves p

/-- a line of legal moves from `p` -/
def LegalLine (G : Game P M) : P → List M → Prop
  | _, [] => True
  | p, m :: ms => m ∈ legalMovesOf G p ∧ LegalLine G (G.play p m) ms

mutual
/-- the side to move in `p` is forcibly mated -/
inductive Lost (G : Game P M) : P → Prop
  | mate {p : P} : legalMovesOf G p = [] → G.inCheck p = true → Lost G p
  | all {p : P} : legalMovesOf G p ≠ [] → (∀ m, m ∈ legalMovesOf G p → Won G (G.play p m)) → Lost G p
/-- the side to move in `p` has a forced mate -/
inductive Won (G : Game P M) : P → Prop
  | some {p : P} (m : M) : m ∈ legalMovesOf G p → Lost G (G.play p m) → Won G p
end

/-- the key determines whether a forced mate exists (the other part of the key-identifies-position hypothesis) -/
def KeyMate (G : Game P M) : Prop := ∀ p q, G.key p = G.key q → (Won G p → Won G q) ∧ (Lost G p → Lost G q)

/-- the cache invariant: a winning mate score that is exact or a lower bound belongs to a won position,
    a losing one that is exact or an upper bound to a lost position -/
def MateSound (G : Game P M) (tt : Table M) : Prop :=
  ∀ p e, tt[G.key p]? = some e →
    ((e.bound = .exact ∨ e.bound = .lower) → e.score ≥ MAXS - 255 → Won G p) ∧
    ((e.bound = .exact ∨ e.bound = .upper) → e.score ≤ MINS + 256 → Lost G p)

end RCE.Proofs.SearchDefs
