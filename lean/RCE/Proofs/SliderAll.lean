import RCE.Proofs.SliderChk.G00
import RCE.Proofs.SliderChk.G01
import RCE.Proofs.SliderChk.G02
import RCE.Proofs.SliderChk.G03
import RCE.Proofs.SliderChk.G04
import RCE.Proofs.SliderChk.G05
import RCE.Proofs.SliderChk.G06
import RCE.Proofs.SliderChk.G07
import RCE.Proofs.SliderChk.G08
import RCE.Proofs.SliderChk.G09
import RCE.Proofs.SliderChk.G10
import RCE.Proofs.SliderChk.G11
import RCE.Proofs.SliderChk.G12
import RCE.Proofs.SliderChk.G13
import RCE.Proofs.SliderChk.G14
import RCE.Proofs.SliderChk.G15
import RCE.Proofs.SliderLookup
/-! All 64 + 64 per-square checks collected. -/
namespace RCE.Proofs.SliderChk
open RCE RCE.Proofs.SliderCheck

theorem rook_all : ∀ sq, sq < 64 → sliderOK (rookCfg sq) = true
  | 0, _ => rook_0
  | 1, _ => rook_1
  | 2, _ => rook_2
  | 3, _ => rook_3
  | 4, _ => rook_4
  | 5, _ => rook_5
  | 6, _ => rook_6
  | 7, _ => rook_7
  | 8, _ => rook_8
  | 9, _ => rook_9
  | 10, _ => rook_10
  | 11, _ => rook_11
  | 12, _ => rook_12
  | 13, _ => rook_13
  | 14, _ => rook_14
  | 15, _ => rook_15
  | 16, _ => rook_16
  | 17, _ => rook_17
  | 18, _ => rook_18
  | 19, _ => rook_19
  | 20, _ => rook_20
  | 21, _ => rook_21
  | 22, _ => rook_22
  | 23, _ => rook_23
  | 24, _ => rook_24
  | 25, _ => rook_25
  | 26, _ => rook_26
  | 27, _ => rook_27
  | 28, _ => rook_28
  | 29, _ => rook_29
  | 30, _ => rook_30
  | 31, _ => rook_31
  | 32, _ => rook_32
  | 33, _ => rook_33
  | 34, _ => rook_34
  | 35, _ => rook_35
  | 36, _ => rook_36
  | 37, _ => rook_37
  | 38, _ => rook_38
  | 39, _ => rook_39
  | 40, _ => rook_40
  | 41, _ => rook_41
  | 42, _ => rook_42
  | 43, _ => rook_43
  | 44, _ => rook_44
  | 45, _ => rook_45
  | 46, _ => rook_46
  | 47, _ => rook_47
  | 48, _ => rook_48
  | 49, _ => rook_49
  | 50, _ => rook_50
  | 51, _ => rook_51
  | 52, _ => rook_52
  | 53, _ => rook_53
  | 54, _ => rook_54
  | 55, _ => rook_55
  | 56, _ => rook_56
  | 57, _ => rook_57
  | 58, _ => rook_58
  | 59, _ => rook_59
  | 60, _ => rook_60
  | 61, _ => rook_61
  | 62, _ => rook_62
  | 63, _ => rook_63
  | n+64, h => absurd h (by omega)

theorem bishop_all : ∀ sq, sq < 64 → sliderOK (bishopCfg sq) = true
  | 0, _ => bishop_0
  | 1, _ => bishop_1
  | 2, _ => bishop_2
  | 3, _ => bishop_3
  | 4, _ => bishop_4
  | 5, _ => bishop_5
  | 6, _ => bishop_6
  | 7, _ => bishop_7
  | 8, _ => bishop_8
  | 9, _ => bishop_9
  | 10, _ => bishop_10
  | 11, _ => bishop_11
  | 12, _ => bishop_12
  | 13, _ => bishop_13
  | 14, _ => bishop_14
  | 15, _ => bishop_15
  | 16, _ => bishop_16
  | 17, _ => bishop_17
  | 18, _ => bishop_18
  | 19, _ => bishop_19
  | 20, _ => bishop_20
  | 21, _ => bishop_21
  | 22, _ => bishop_22
  | 23, _ => bishop_23
  | 24, _ => bishop_24
  | 25, _ => bishop_25
  | 26, _ => bishop_26
  | 27, _ => bishop_27
  | 28, _ => bishop_28
  | 29, _ => bishop_29
  | 30, _ => bishop_30
  | 31, _ => bishop_31
  | 32, _ => bishop_32
  | 33, _ => bishop_33
  | 34, _ => bishop_34
  | 35, _ => bishop_35
  | 36, _ => bishop_36
  | 37, _ => bishop_37
  | 38, _ => bishop_38
  | 39, _ => bishop_39
  | 40, _ => bishop_40
  | 41, _ => bishop_41
  | 42, _ => bishop_42
  | 43, _ => bishop_43
  | 44, _ => bishop_44
  | 45, _ => bishop_45
  | 46, _ => bishop_46
  | 47, _ => bishop_47
  | 48, _ => bishop_48
  | 49, _ => bishop_49
  | 50, _ => bishop_50
  | 51, _ => bishop_51
  | 52, _ => bishop_52
  | 53, _ => bishop_53
  | 54, _ => bishop_54
  | 55, _ => bishop_55
  | 56, _ => bishop_56
  | 57, _ => bishop_57
  | 58, _ => bishop_58
  | 59, _ => bishop_59
  | 60, _ => bishop_60
  | 61, _ => bishop_61
  | 62, _ => bishop_62
  | 63, _ => bishop_63
  | n+64, h => absurd h (by omega)

end RCE.Proofs.SliderChk
