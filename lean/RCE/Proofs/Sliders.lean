import RCE.Model.Attacks
import RCE.Spec.Rules
/-! Helper definitions and lemmas for C06. -/
namespace RCE.Proofs.Sliders
open RCE

/-- occupancy predicate of a bitboard -/
def occOf (occ : BB) : Nat → Bool := fun t => testBit occ t

/-- the spec's attack set of a slider: for each direction the squares up to and including the first occupied one -/
def specSlider (dirs : List (Int × Int)) (sq : Nat) (occ : BB) : List Nat :=
  dirs.flatMap fun d => Rules.slideOcc (occOf occ) sq d 7

/-- a bitboard is exactly a list of squares -/
def Exact (att : BB) (spec : List Nat) : Prop := ∀ t, t < 64 → (testBit att t = true ↔ t ∈ spec)

def exactB (att : BB) (spec : List Nat) : Bool := (List.range 64).all fun t => testBit att t == spec.contains t

theorem exact_of_exactB {att : BB} {spec : List Nat} (h : exactB att spec = true) : Exact att spec := by
  intro t ht
  unfold exactB at h
  rw [List.all_eq_true] at h
  have := h t (List.mem_range.mpr ht)
  simp only [beq_iff_eq] at this
  rw [this]
  simp

theorem forall_lt_of_all {p : Nat → Bool} {n : Nat} (h : (List.range n).all p = true) : ∀ i, i < n → p i = true := by
  intro i hi
  rw [List.all_eq_true] at h
  exact h i (List.mem_range.mpr hi)

set_option maxRecDepth 100000 in
theorem knight_all : (List.range 64).all (fun sq => exactB (knightAttacks sq) (Rules.knightOff.filterMap fun d => Rules.step sq d.1 d.2)) = true := by
  decide +kernel

set_option maxRecDepth 100000 in
theorem king_all : (List.range 64).all (fun sq => exactB (kingAttacks sq) (Rules.kingOff.filterMap fun d => Rules.step sq d.1 d.2)) = true := by
  decide +kernel

set_option maxRecDepth 100000 in
theorem pawn_all : [true, false].all (fun white => (List.range 64).all (fun sq => exactB (pawnAttacks white sq)
    ([(1, Rules.pawnDir (if white then .white else .black)), (-1, Rules.pawnDir (if white then .white else .black))].filterMap
        fun d => Rules.step sq d.1 d.2))) = true := by
  decide +kernel

theorem knight_exact (sq : Nat) (h : sq < 64) :
    Exact (knightAttacks sq) (Rules.knightOff.filterMap fun d => Rules.step sq d.1 d.2) :=
  exact_of_exactB (forall_lt_of_all knight_all sq h)

theorem king_exact (sq : Nat) (h : sq < 64) :
    Exact (kingAttacks sq) (Rules.kingOff.filterMap fun d => Rules.step sq d.1 d.2) :=
  exact_of_exactB (forall_lt_of_all king_all sq h)

theorem pawn_exact (white : Bool) (sq : Nat) (h : sq < 64) :
    Exact (pawnAttacks white sq)
      ([(1, Rules.pawnDir (if white then .white else .black)), (-1, Rules.pawnDir (if white then .white else .black))].filterMap
        fun d => Rules.step sq d.1 d.2) := by
  have h0 := pawn_all
  simp only [List.all_cons, List.all_nil, Bool.and_true, Bool.and_eq_true] at h0
  cases white
  · exact exact_of_exactB (forall_lt_of_all h0.2 sq h)
  · exact exact_of_exactB (forall_lt_of_all h0.1 sq h)

end RCE.Proofs.Sliders
