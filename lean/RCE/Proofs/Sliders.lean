import RCE.Model.Attacks
import RCE.Spec.Rules
import RCE.Proofs.SliderAll
import RCE.Proofs.LeaperChk
/-! Helper definitions and lemmas for C06. -/
namespace RCE.Proofs.Sliders
open RCE

/-- occupancy predicate of a bitboard -/
def occOf (occ : BB) : Nat → Bool := fun t => testBit occ t

/-- the spec's attack set of a slider: for each direction the squares up to and including the first occupied one -/
def specSlider (dirs : List (Int × Int)) (sq : Nat) (occ : BB) : List Nat :=
  dirs.flatMap fun d => Rules.slideOcc (occOf occ) sq d 7

/-- a bitboard is exactly a list of squares -/
def Exact (att : BB) (spec : List Nat) : Prop := ∀ t, t < 64 → (testBit att t = true ↔ t ∈ spec)

def exactB (att : BB) (spec : List Nat) : Bool := (List.range 64).all fun t => testBit att t == spec.contains t

theorem exact_of_exactB {att : BB} {spec : List Nat} (h : exactB att spec = true) : Exact att spec := by
  intro t ht
  unfold exactB at h
  rw [List.all_eq_true] at h
  have := h t (List.mem_range.mpr ht)
  simp only [beq_iff_eq] at this
  rw [this]
  simp

theorem forall_lt_of_all {p : Nat → Bool} {n : Nat} (h : (List.range n).all p = true) : ∀ i, i < n → p i = true := by
  intro i hi
  rw [List.all_eq_true] at h
  exact h i (List.mem_range.mpr hi)

-- (kernel-evaluated in `LeaperChk`, a module lake builds in parallel with the slider checks; `exactB` and
--  `LeaperChk.exactB'` have the same body)
theorem knight_all : (List.range 64).all (fun sq => exactB (knightAttacks sq) (Rules.knightOff.filterMap fun d => Rules.step sq d.1 d.2)) = true :=
  LeaperChk.knight_all

theorem king_all : (List.range 64).all (fun sq => exactB (kingAttacks sq) (Rules.kingOff.filterMap fun d => Rules.step sq d.1 d.2)) = true :=
  LeaperChk.king_all

theorem pawn_all : [true, false].all (fun white => (List.range 64).all (fun sq => exactB (pawnAttacks white sq)
    ([(1, Rules.pawnDir (if white then .white else .black)), (-1, Rules.pawnDir (if white then .white else .black))].filterMap
        fun d => Rules.step sq d.1 d.2))) = true :=
  LeaperChk.pawn_all

theorem knight_exact (sq : Nat) (h : sq < 64) :
    Exact (knightAttacks sq) (Rules.knightOff.filterMap fun d => Rules.step sq d.1 d.2) :=
  exact_of_exactB (forall_lt_of_all knight_all sq h)

theorem king_exact (sq : Nat) (h : sq < 64) :
    Exact (kingAttacks sq) (Rules.kingOff.filterMap fun d => Rules.step sq d.1 d.2) :=
  exact_of_exactB (forall_lt_of_all king_all sq h)

theorem pawn_exact (white : Bool) (sq : Nat) (h : sq < 64) :
    Exact (pawnAttacks white sq)
      ([(1, Rules.pawnDir (if white then .white else .black)), (-1, Rules.pawnDir (if white then .white else .black))].filterMap
        fun d => Rules.step sq d.1 d.2) := by
  have h0 := pawn_all
  simp only [List.all_cons, List.all_nil, Bool.and_true, Bool.and_eq_true] at h0
  cases white
  · exact exact_of_exactB (forall_lt_of_all h0.2 sq h)
  · exact exact_of_exactB (forall_lt_of_all h0.1 sq h)

/-! ### sliders: magic-table lookups are exact for every square and every occupancy

The per-square facts are established by `SliderCheck.sliderOK` (kernel-evaluated in `SliderChk/G*.lean`);
`SliderSound.sliderOK_sound` turns a successful check into the statement below. -/

theorem rook_exact (sq : Nat) (occ : BB) (h : sq < 64) :
    ∃ a, rookLookup? sq occ = some a ∧ Exact a (specSlider Rules.rookDirs sq occ) :=
  SliderCheck.rook_of_ok sq h (SliderChk.rook_all sq h) occ

theorem bishop_exact (sq : Nat) (occ : BB) (h : sq < 64) :
    ∃ a, bishopLookup? sq occ = some a ∧ Exact a (specSlider Rules.bishopDirs sq occ) :=
  SliderCheck.bishop_of_ok sq h (SliderChk.bishop_all sq h) occ

/-- the magic lookup never panics and equals the slow ray walk on the masked occupancy -/
theorem rook_lookup_eq (sq : Nat) (occ : BB) (h : sq < 64) :
    rookLookup? sq occ = some (rookSlow sq (occ &&& rookMask sq)) :=
  SliderCheck.rook_lookup_of_ok sq h (SliderChk.rook_all sq h) occ

theorem bishop_lookup_eq (sq : Nat) (occ : BB) (h : sq < 64) :
    bishopLookup? sq occ = some (bishopSlow sq (occ &&& bishopMask sq)) :=
  SliderCheck.bishop_lookup_of_ok sq h (SliderChk.bishop_all sq h) occ

/-- `rookSlow` / `bishopSlow` without the 512-entry ray array: a form the kernel evaluates quickly -/
theorem rookSlow_fast (sq : Nat) (x : BB) :
    rookSlow sq x = SliderCheck.slowFast sq (SliderCheck.rookCfg sq).D1 (SliderCheck.rookCfg sq).D2
      (SliderCheck.rookCfg sq).D3 (SliderCheck.rookCfg sq).D4 x :=
  SliderCheck.rookSlow_fast sq x

theorem bishopSlow_fast (sq : Nat) (x : BB) :
    bishopSlow sq x = SliderCheck.slowFast sq (SliderCheck.bishopCfg sq).D1 (SliderCheck.bishopCfg sq).D2
      (SliderCheck.bishopCfg sq).D3 (SliderCheck.bishopCfg sq).D4 x :=
  SliderCheck.bishopSlow_fast sq x

theorem queen_exact (sq : Nat) (occ : BB) (h : sq < 64) :
    Exact (queenAttacks sq occ) (specSlider (Rules.rookDirs ++ Rules.bishopDirs) sq occ) := by
  obtain ⟨a, ha, hea⟩ := rook_exact sq occ h
  obtain ⟨b, hb, heb⟩ := bishop_exact sq occ h
  intro t ht
  unfold queenAttacks rookAttacks bishopAttacks
  rw [ha, hb]
  simp only [Option.getD_some, specSlider, List.flatMap_append, List.mem_append]
  rw [Bits.testBit_or _ _ _ ht, Bool.or_eq_true, hea t ht, heb t ht]
  rfl

end RCE.Proofs.Sliders
