import RCE.Proofs.MoveGenPseudo
import RCE.Proofs.MoveGenKeeps
import RCE.Proofs.BoardUndo
/-! C01 assembled: attacked squares, check status, pseudo-legal and legal generation, mate / stalemate.

    `attacked_exact'`, `inCheck_exact'` (`MoveGenAttacks`) and `pseudo_exact'` (`MoveGenPseudo`) are proved
    outright.  The legal-move theorems go through one `make_move`, so they take the one-step refinement
    `MakeRefines` (C03, `RCE/Proofs/Refine.lean`) and the preservation of the invariants `MakeKeeps` as
    explicit hypotheses (`legal_exact_of`, `mate_stalemate_exact_of`).  `MakeKeeps` is proved here
    (`makeKeeps`, from `MoveGenKeeps`), so the `…_of_refines` versions need `MakeRefines` only. -/
namespace RCE.Proofs.MoveGen
open RCE RCE.Proofs.BoardWF RCE.Proofs.Abs RCE.Proofs.BoardPBB RCE.Proofs.BoardBits
open RCE.Proofs.MoveGenList RCE.Proofs.BoardGen

def MakeRefines : Prop := ∀ (b : Board) (m : Ply), Legal b → m ∈ b.allMoves →
  abs (b.makeMove m) = Rules.apply (abs b) (absMove m)
def MakeKeeps : Prop := ∀ (b : Board) (m : Ply), Legal b → m ∈ b.allMoves →
  WF (b.makeMove m) ∧ KingsPresent (b.makeMove m)

/-- `make_move` keeps the invariant and both kings (proved in `MoveGenKeeps`) -/
theorem makeKeeps : MakeKeeps := fun b m hl hm => makeKeeps_proved b m hl hm

theorem legal_exact_of (hr : MakeRefines) (hk : MakeKeeps) (b : Board) (hl : Legal b) :
    ((b.legalMoves).1.map absMove).Perm (Rules.legalMoves (abs b)) ∧ ((b.legalMoves).1.map absMove).Nodup := by
  have hp := pseudo_exact' b hl
  rw [(BoardUndo.legalMoves_pure' b hl.wf).2]
  unfold Board.legalMovesPure Rules.legalMoves
  have hagree : ∀ m ∈ b.allMoves, (!(b.makeMove m).isInCheck m.piece.color) =
      (fun mv => !Rules.inCheck (Rules.apply (abs b) mv) (abs b).turn) (absMove m) := by
    intro m hm
    obtain ⟨hw', hk'⟩ := hk b m hl hm
    have hc : m.piece.color = b.turn := (gen_of_mem b hl.wf m hm).shape.color
    simp only
    rw [inCheck_exact' _ hw' hk', hr b m hl hm, hc]
    rfl
  rw [map_filter_of_agree b.allMoves absMove (fun m => !(b.makeMove m).isInCheck m.piece.color)
    (fun mv => !Rules.inCheck (Rules.apply (abs b) mv) (abs b).turn) hagree]
  exact ⟨List.Perm.filter _ hp.1, nodup_filter _ hp.2⟩

theorem mate_stalemate_exact_of (hr : MakeRefines) (hk : MakeKeeps) (b : Board) (hl : Legal b) :
    (((b.legalMoves).1.isEmpty && b.isInCheck b.turn) = Rules.isCheckmate (abs b)) ∧
    (((b.legalMoves).1.isEmpty && !b.isInCheck b.turn) = Rules.isStalemate (abs b)) := by
  have h := (legal_exact_of hr hk b hl).1
  have he : (b.legalMoves).1.isEmpty = (Rules.legalMoves (abs b)).isEmpty := by
    rw [← h.isEmpty_eq]; simp
  have hc : b.isInCheck b.turn = Rules.inCheck (abs b) (abs b).turn := inCheck_exact' b hl.wf hl.kings b.turn
  unfold Rules.isCheckmate Rules.isStalemate
  rw [he, hc]
  exact ⟨rfl, rfl⟩

theorem legal_exact_of_refines (hr : MakeRefines) (b : Board) (hl : Legal b) :
    ((b.legalMoves).1.map absMove).Perm (Rules.legalMoves (abs b)) ∧ ((b.legalMoves).1.map absMove).Nodup :=
  legal_exact_of hr makeKeeps b hl

theorem mate_stalemate_exact_of_refines (hr : MakeRefines) (b : Board) (hl : Legal b) :
    (((b.legalMoves).1.isEmpty && b.isInCheck b.turn) = Rules.isCheckmate (abs b)) ∧
    (((b.legalMoves).1.isEmpty && !b.isInCheck b.turn) = Rules.isStalemate (abs b)) :=
  mate_stalemate_exact_of hr makeKeeps b hl

end RCE.Proofs.MoveGen
