/-! The rules of chess, written independently of the engine and as plainly as possible: a mailbox
    board in (file, rank) coordinates (`sq = rank * 8 + file`), no bit tricks, no tables.
    This is the oracle for C01 / C03 / C06 / C07 / C08 / C09 / C14 and is itself validated against
    published perft numbers (labelled tests, see `RCE/Props/C01.lean`). -/
namespace RCE.Rules

inductive Color | white | black deriving DecidableEq, Repr, Inhabited
inductive Kind | pawn | knight | bishop | rook | queen | king deriving DecidableEq, Repr, Inhabited
structure Piece where
  color : Color
  kind : Kind
deriving DecidableEq, Repr, Inhabited

def Color.opp : Color → Color | .white => .black | .black => .white

structure Pos where
  board : Array (Option Piece)      -- 64 entries, a1 = 0, h8 = 63
  turn : Color
  wk : Bool
  wq : Bool
  bk : Bool
  bq : Bool
  ep : Option Nat                   -- file of the pawn that just made a double step
  half : Nat
  full : Nat
deriving Repr, Inhabited

structure Move where
  src : Nat
  dst : Nat
  promo : Option Kind := none
deriving DecidableEq, Repr, Inhabited

def Pos.at (p : Pos) (sq : Nat) : Option Piece := p.board.getD sq none

/-- step from `sq` by (df, dr); none when a coordinate leaves 0..7 -/
def step (sq : Nat) (df dr : Int) : Option Nat :=
  let f : Int := (sq % 8 : Nat) + df
  let r : Int := (sq / 8 : Nat) + dr
  if 0 ≤ f ∧ f < 8 ∧ 0 ≤ r ∧ r < 8 then some (r.toNat * 8 + f.toNat) else none

def knightOff : List (Int × Int) := [(1,2),(2,1),(2,-1),(1,-2),(-1,-2),(-2,-1),(-2,1),(-1,2)]
def kingOff : List (Int × Int) := [(1,0),(1,1),(0,1),(-1,1),(-1,0),(-1,-1),(0,-1),(1,-1)]
def rookDirs : List (Int × Int) := [(1,0),(-1,0),(0,1),(0,-1)]
def bishopDirs : List (Int × Int) := [(1,1),(1,-1),(-1,1),(-1,-1)]

/-- squares reached sliding from `sq` in direction `d` over an occupancy predicate, up to and
    including the first occupied one -/
def slideOcc (occ : Nat → Bool) (sq : Nat) (d : Int × Int) : Nat → List Nat
  | 0 => []
  | fuel+1 => match step sq d.1 d.2 with
    | none => []
    | some t => if occ t then [t] else t :: slideOcc occ t d fuel

def slide (p : Pos) (sq : Nat) (d : Int × Int) (fuel : Nat) : List Nat :=
  slideOcc (fun t => (p.at t).isSome) sq d fuel

def pawnDir : Color → Int | .white => 1 | .black => -1

/-- the squares attacked by the piece standing on `sq` -/
def attacksFrom (p : Pos) (sq : Nat) (pc : Piece) : List Nat :=
  match pc.kind with
  | .knight => knightOff.filterMap fun d => step sq d.1 d.2
  | .king => kingOff.filterMap fun d => step sq d.1 d.2
  | .pawn => [(1, pawnDir pc.color), (-1, pawnDir pc.color)].filterMap fun d => step sq d.1 d.2
  | .rook => rookDirs.flatMap fun d => slide p sq d 7
  | .bishop => bishopDirs.flatMap fun d => slide p sq d 7
  | .queen => (rookDirs ++ bishopDirs).flatMap fun d => slide p sq d 7

def squares : List Nat := List.range 64

/-- is `t` attacked by some piece of colour `c`? -/
def attacked (p : Pos) (t : Nat) (c : Color) : Bool :=
  squares.any fun sq => match p.at sq with
    | some pc => pc.color == c && (attacksFrom p sq pc).contains t
    | none => false

def kingSq (p : Pos) (c : Color) : Option Nat :=
  squares.find? fun sq => p.at sq == some ⟨c, .king⟩

def inCheck (p : Pos) (c : Color) : Bool :=
  match kingSq p c with
  | some k => attacked p k c.opp
  | none => false

def promoKinds : List Kind := [.queen, .rook, .knight, .bishop]

def pawnMoves (p : Pos) (sq : Nat) (c : Color) : List Move :=
  let dr := pawnDir c
  let startRank := if c == .white then 1 else 6
  let lastRank := if c == .white then 7 else 0
  let epRank := if c == .white then 4 else 3
  let expand (t : Nat) : List Move :=
    if t / 8 == lastRank then promoKinds.map fun k => ⟨sq, t, some k⟩ else [⟨sq, t, none⟩]
  let pushes : List Nat :=
    match step sq 0 dr with
    | some t1 => if (p.at t1).isNone then
        t1 :: (if sq / 8 == startRank then
                 match step t1 0 dr with
                 | some t2 => if (p.at t2).isNone then [t2] else []
                 | none => []
               else [])
        else []
    | none => []
  let caps : List Nat := [(1 : Int), -1].filterMap fun df =>
    match step sq df dr with
    | some t => match p.at t with
      | some q => if q.color != c then some t else none
      | none => if sq / 8 == epRank && p.ep == some (t % 8) then some t else none
    | none => none
  (pushes ++ caps).flatMap expand

def castleMoves (p : Pos) (c : Color) : List Move :=
  let (home, ks, qs) := match c with
    | .white => (4, p.wk, p.wq)
    | .black => (60, p.bk, p.bq)
  if p.at home != some ⟨c, .king⟩ then [] else
  let empty (l : List Nat) := l.all fun s => (p.at s).isNone
  let safe (l : List Nat) := l.all fun s => !attacked p s c.opp
  (if ks && p.at (home+3) == some ⟨c, .rook⟩ && empty [home+1, home+2] && safe [home, home+1, home+2]
     then [⟨home, home+2, none⟩] else []) ++
  (if qs && p.at (home-4) == some ⟨c, .rook⟩ && empty [home-1, home-2, home-3] && safe [home, home-1, home-2]
     then [⟨home, home-2, none⟩] else [])

def pseudoMoves (p : Pos) : List Move :=
  squares.flatMap fun sq => match p.at sq with
    | some pc =>
      if pc.color != p.turn then [] else
      match pc.kind with
      | .pawn => pawnMoves p sq pc.color
      | .king => ((attacksFrom p sq pc).filter fun t => match p.at t with
                    | some q => q.color != pc.color | none => true).map (fun t => ⟨sq, t, none⟩)
                 ++ castleMoves p pc.color
      | _ => ((attacksFrom p sq pc).filter fun t => match p.at t with
                    | some q => q.color != pc.color | none => true).map fun t => ⟨sq, t, none⟩
    | none => []

/-- play a (pseudo-legal) move: placement, rights, ep file, clocks -/
def apply (p : Pos) (m : Move) : Pos :=
  match p.at m.src with
  | none => p
  | some pc =>
    let c := pc.color
    let isPawn := pc.kind == .pawn
    let isEp := isPawn && m.src % 8 != m.dst % 8 && (p.at m.dst).isNone
    let isCapture := (p.at m.dst).isSome || isEp
    let isCastle := pc.kind == .king && (m.dst == m.src + 2 || m.dst + 2 == m.src)
    let b := p.board.setIfInBounds m.src none
    let b := if isEp then b.setIfInBounds ((m.src / 8) * 8 + m.dst % 8) none else b
    let placed : Piece := match m.promo with | some k => ⟨c, k⟩ | none => pc
    let b := b.setIfInBounds m.dst (some placed)
    let b := if isCastle then
        if m.dst > m.src then (b.setIfInBounds (m.src + 3) none).setIfInBounds (m.src + 1) (some ⟨c, .rook⟩)
        else (b.setIfInBounds (m.src - 4) none).setIfInBounds (m.src - 1) (some ⟨c, .rook⟩)
      else b
    let touch (s : Nat) := m.src == s || m.dst == s
    { board := b
      turn := c.opp
      wk := p.wk && !touch 4 && !touch 7
      wq := p.wq && !touch 4 && !touch 0
      bk := p.bk && !touch 60 && !touch 63
      bq := p.bq && !touch 60 && !touch 56
      ep := if isPawn && (m.dst == m.src + 16 || m.dst + 16 == m.src) then some (m.src % 8) else none
      half := if isPawn || isCapture then 0 else p.half + 1
      full := if c == .black then p.full + 1 else p.full }

def legalMoves (p : Pos) : List Move :=
  (pseudoMoves p).filter fun m => !inCheck (apply p m) p.turn

def isCheckmate (p : Pos) : Bool := (legalMoves p).isEmpty && inCheck p p.turn
def isStalemate (p : Pos) : Bool := (legalMoves p).isEmpty && !inCheck p p.turn

def perft (p : Pos) : Nat → Nat
  | 0 => 1
  | d+1 => (legalMoves p).foldl (fun n m => n + perft (apply p m) d) 0

end RCE.Rules
