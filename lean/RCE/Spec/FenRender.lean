import RCE.Spec.Rules
/-! FEN text ⇄ `Rules.Pos`, written against the FEN definition (ranks 8→1, run-length digits,
    side, castling letters, en-passant square, two counters), independently of the engine's reader. -/
namespace RCE.Rules

def pieceChar (p : Piece) : Char :=
  let c := match p.kind with
    | .pawn => 'p' | .knight => 'n' | .bishop => 'b' | .rook => 'r' | .queen => 'q' | .king => 'k'
  if p.color == .white then c.toUpper else c

def renderRank (p : Pos) (r : Nat) : List Char :=
  let step := fun (acc : List Char × Nat) (f : Nat) =>
    match p.at (r * 8 + f) with
    | some pc => ((if acc.2 > 0 then acc.1 ++ [Char.ofNat (48 + acc.2)] else acc.1) ++ [pieceChar pc], 0)
    | none => (acc.1, acc.2 + 1)
  let (cs, e) := (List.range 8).foldl step ([], 0)
  if e > 0 then cs ++ [Char.ofNat (48 + e)] else cs

def renderPlacement (p : Pos) : List Char :=
  List.intercalate ['/'] ((List.range 8).reverse.map (renderRank p))

def renderCastling (p : Pos) : List Char :=
  let s := (if p.wk then ['K'] else []) ++ (if p.wq then ['Q'] else []) ++
           (if p.bk then ['k'] else []) ++ (if p.bq then ['q'] else [])
  if s.isEmpty then ['-'] else s

/-- the en-passant field names the square *behind* the pawn that just moved two squares -/
def renderEp (p : Pos) : List Char :=
  match p.ep with
  | none => ['-']
  | some f => [Char.ofNat (97 + f), if p.turn == .white then '6' else '3']

def renderNat (n : Nat) : List Char := (toString n).toList

def render (p : Pos) : List Char :=
  renderPlacement p ++ [' '] ++ [if p.turn == .white then 'w' else 'b'] ++ [' '] ++ renderCastling p ++ [' ']
    ++ renderEp p ++ [' '] ++ renderNat p.half ++ [' '] ++ renderNat p.full

def kindOfChar (c : Char) : Option Kind :=
  match c.toLower with
  | 'p' => some .pawn | 'n' => some .knight | 'b' => some .bishop
  | 'r' => some .rook | 'q' => some .queen | 'k' => some .king | _ => none

/-- one rank of the placement field, files a→h -/
def parseRank (cs : List Char) (r : Nat) (b : Array (Option Piece)) : Array (Option Piece) :=
  (cs.foldl (fun (acc : Array (Option Piece) × Nat) c =>
    if c.isDigit then (acc.1, acc.2 + (c.toNat - 48))
    else match kindOfChar c with
      | some k => (acc.1.setIfInBounds (r * 8 + acc.2) (some ⟨if c.isUpper then .white else .black, k⟩), acc.2 + 1)
      | none => acc) (b, 0)).1

def splitOn (sep : Char) (cs : List Char) : List (List Char) :=
  (cs.foldr (fun c acc => if c == sep then [] :: acc else
      match acc with | h :: t => (c :: h) :: t | [] => [[c]]) [[]])

def fields (cs : List Char) : List (List Char) := (splitOn ' ' cs).filter (fun f => !f.isEmpty)

def natOf (cs : List Char) : Nat := cs.foldl (fun n c => n * 10 + (c.toNat - 48)) 0

/-- reader for well-formed FEN text (4 or 6 fields) -/
def parse (cs : List Char) : Pos :=
  let fs := fields cs
  let rows := splitOn '/' (fs.getD 0 [])
  let board := (List.range 8).foldl (fun b i => parseRank (rows.getD i []) (7 - i) b) (Array.replicate 64 none)
  let c := fs.getD 2 []
  { board := board
    turn := if fs.getD 1 [] == ['b'] then .black else .white
    wk := c.contains 'K', wq := c.contains 'Q', bk := c.contains 'k', bq := c.contains 'q'
    ep := match fs.getD 3 [] with | f :: _ => if f == '-' then none else some (f.toNat - 97) | [] => none
    half := match fs[4]? with | some h => natOf h | none => 0
    full := match fs[5]? with | some h => natOf h | none => 1 }

end RCE.Rules
