import RCE.Model.SearchCore
/-! The engine's own look-ahead game and its plain minimax value (C11): full width to the nominal
    depth, one extra ply whenever the side to move is in check, capture-only quiescence with stand-pat
    at the horizon, immediate draw on the fifty-move rule or a repeated position, mate scored by
    distance from the root, the ply cap of 255.  No window, no ordering, no cache, no re-search. -/
namespace RCE.Search

variable {P M : Type}

def legalMovesOf (G : Game P M) (p : P) : List M := (G.allMoves p).filter (G.legal p)

def maxList (init : Int) (l : List Int) : Int := l.foldl max init

/-- quiescence value: stand pat or the best legal capture -/
def nmQuiesce (G : Game P M) : Nat → P → Nat → Int
  | 0, _, _ => 0
  | fuel + 1, p, ply =>
    if ply = 255 then 0 else
    maxList (G.eval p) (((legalMovesOf G p).filter G.isCapture).map fun m => - nmQuiesce G fuel (G.play p m) (ply + 1))

/-- minimax value of an inner node at nominal remaining depth `depth`, `ply` plies from the root -/
def negamax (G : Game P M) : Nat → P → Nat → Nat → Int
  | 0, _, _, _ => 0
  | fuel + 1, p, depth, ply =>
    if ply = 255 then 0 else
    if G.fifty p || G.repeated p then 0 else
    let depth := if G.inCheck p then depth + 1 else depth
    if depth = 0 then nmQuiesce G (fuel + 1) p ply else
    match legalMovesOf G p with
    | [] => if G.inCheck p then MINS + ply else 0
    | ms => maxList MINS (ms.map fun m => - negamax G fuel (G.play p m) (depth - 1) (ply + 1))

/-- value of root move `m` for a depth-`depth` search -/
def rootMoveValue (G : Game P M) (p : P) (depth : Nat) (m : M) : Int :=
  - negamax G 255 (G.play p m) (depth - 1) 1

/-- the value `alpha_beta_start(depth)` must arrive at (positions with a legal move) -/
def rootValue (G : Game P M) (p : P) (depth : Nat) : Int :=
  maxList MINS ((legalMovesOf G p).map (rootMoveValue G p depth))

end RCE.Search

/-! ### An executable reference with textbook fail-soft alpha-beta pruning

Plain `negamax` is exponential without cut-offs (unpruned capture trees explode), so the differential
check evaluates this version: no ordering, no cache, no null windows, no killers — only the classical
"stop when the best value reaches β".  With the infinite root window it returns the minimax value. -/
namespace RCE.Search

variable {P M : Type}

def refKids (rec : P → Int → Int → Int) (G : Game P M) (p : P) : List M → Int → Int → Int → Int
  | [], best, _, _ => best
  | m :: ms, best, a, b =>
    let v := - rec (G.play p m) (-b) (-a)
    let best := max best v
    if best ≥ b then best else refKids rec G p ms best (max a best) b

/-- any permutation of the moves gives the same minimax value; sorting by the static capture score keeps the
    reference's capture trees small (insertion sort, stable) -/
def insertByScore (G : Game P M) (m : M) : List M → List M
  | [] => [m]
  | x :: xs => if G.staticScore m > G.staticScore x then m :: x :: xs else x :: insertByScore G m xs
def sortByScore (G : Game P M) (l : List M) : List M := l.foldr (insertByScore G) []

def refQuiesce (G : Game P M) : Nat → P → Nat → Int → Int → Int
  | 0, _, _, _, _ => 0
  | fuel + 1, p, ply, a, b =>
    if ply = 255 then 0 else
    let s := G.eval p
    if s ≥ b then s else
    refKids (fun c x y => refQuiesce G fuel c (ply + 1) x y) G p (sortByScore G ((legalMovesOf G p).filter G.isCapture)) s (max a s) b

def refNegamax (G : Game P M) : Nat → P → Nat → Nat → Int → Int → Int
  | 0, _, _, _, _, _ => 0
  | fuel + 1, p, depth, ply, a, b =>
    if ply = 255 then 0 else
    if G.fifty p || G.repeated p then 0 else
    let depth := if G.inCheck p then depth + 1 else depth
    if depth = 0 then refQuiesce G (fuel + 1) p ply a b else
    match legalMovesOf G p with
    | [] => if G.inCheck p then MINS + ply else 0
    | ms => refKids (fun c x y => refNegamax G fuel c (depth - 1) (ply + 1) x y) G p (sortByScore G ms) (MINS - 1) a b

def INF : Int := 1000000

def refRootMoveValue (G : Game P M) (p : P) (depth : Nat) (m : M) : Int :=
  - refNegamax G 255 (G.play p m) (depth - 1) 1 (-INF) INF

/-- root value with the window narrowed by the best value so far -/
def refRootValue (G : Game P M) (p : P) (depth : Nat) : Int :=
  refKids (fun c x y => refNegamax G 255 c (depth - 1) 1 x y) G p (legalMovesOf G p) (MINS - 1) (-INF) INF

/-- the side to move is checkmated within `n` further moves of its own, whatever it plays (no draw rules: used on
    positions without history and with a small half-move clock) -/
def lostWithin (G : Game P M) : Nat → P → Bool
  | 0, p => (legalMovesOf G p).isEmpty && G.inCheck p
  | n + 1, p =>
    let ms := legalMovesOf G p
    if ms.isEmpty then G.inCheck p
    else ms.all fun m => (legalMovesOf G (G.play p m)).any fun m' => lostWithin G n (G.play (G.play p m) m')

end RCE.Search
