import RCE.Driver.Codec
/-! Replays the `tables` stream: every ray, every leaper entry and every slider lookup the harness
    performed is recomputed by the model (tables rebuilt from the generated constants) and by the
    coordinate spec. -/
namespace RCE.Driver
open RCE RCE.Codec

structure TSt where
  lineNo : Nat := 0
  rays : Nat := 0
  leapers : Nat := 0
  sliders : Nat := 0
  wrappers : Nat := 0
  nModel : Nat := 0
  nSpec : Nat := 0
  reports : Array String := #[]
  samples : Array String := #[]

def TSt.report (s : TSt) (cls kind detail : String) : TSt :=
  let s := if cls == "model" then { s with nModel := s.nModel + 1 } else { s with nSpec := s.nSpec + 1 }
  if keepReport s.reports s!"class={cls} props=C06 kind={kind} " then
    { s with reports := s.reports.push s!"MISMATCH class={cls} props=C06 kind={kind} line={s.lineNo} {detail}" }
  else s

def posOfOcc (occ : Nat) : Rules.Pos :=
  { (default : Rules.Pos) with board := (Array.range 64).map fun i => if occ >>> i % 2 == 1 then some ⟨.white, .pawn⟩ else none }

/-- ray squares by coordinate stepping to the edge; directions as `enum Direction` -/
def dirDelta : Nat → Int × Int
  | 0 => (0, 1) | 1 => (1, 1) | 2 => (1, 0) | 3 => (1, -1) | 4 => (0, -1) | 5 => (-1, -1) | 6 => (-1, 0) | _ => (-1, 1)

def specRay (sq dir : Nat) : Nat :=
  let d := dirDelta dir
  bbOfSquares (Rules.slide (posOfOcc 0) sq d 7)

def specAttacks (code sq occ : Nat) : Nat :=
  let k := kindOfCode code
  bbOfSquares (Rules.attacksFrom (posOfOcc occ) sq ⟨if code < 6 then .white else .black, specKind k.pk⟩)

def tstep (s : TSt) (line : String) : TSt := Id.run do
  let mut s := { s with lineNo := s.lineNo + 1 }
  let t := line.splitOn " "
  match t with
  | ["R", sq, dir, v] =>
    let sq := sq.toNat!; let dir := dir.toNat!; let v := parseHex v
    s := { s with rays := s.rays + 1 }
    if (ray sq dir).toNat != v then s := s.report "model" "ray" s!"sq={sq} dir={dir} impl={hex v} model={hex64 (ray sq dir)}"
    if specRay sq dir != v then s := s.report "spec" "ray" s!"sq={sq} dir={dir} impl={hex v} spec={hex (specRay sq dir)}"
  | ["K", code, sq, occ, v] =>
    let code := code.toNat!; let sq := sq.toNat!; let occ := parseHex occ; let v := parseHex v
    let k := kindOfCode code
    if k.pk == .pawn || k.pk == .king || k.pk == .knight then s := { s with leapers := s.leapers + 1 }
    else s := { s with sliders := s.sliders + 1 }
    let m := (kindAttacks k sq occ.toUInt64).toNat
    if m != v then s := s.report "model" "attacks" s!"kind={code} sq={sq} occ={hex occ} impl={hex v} model={hex m}"
    let sp := specAttacks code sq occ
    if sp != v then s := s.report "spec" "attacks" s!"kind={code} sq={sq} occ={hex occ} impl={hex v} spec={hex sp}"
    if s.samples.size < 3 && s.sliders > 1000 && occ != 0 then
      s := { s with samples := s.samples.push s!"kind={code} sq={sq} occ={hex occ} attacks={hex v}" }
  | ["W", sq, occ, r, b, q] =>
    let sq := sq.toNat!; let occ := parseHex occ
    s := { s with wrappers := s.wrappers + 1 }
    let sr := specAttacks 3 sq occ; let sb := specAttacks 4 sq occ
    if parseHex r != sr || parseHex b != sb || parseHex q != (sr ||| sb) then
      s := s.report "spec" "wrapper" s!"sq={sq} occ={hex occ} impl={r},{b},{q} spec={hex sr},{hex sb}"
    if (rookAttacks sq occ.toUInt64).toNat != parseHex r || (bishopAttacks sq occ.toUInt64).toNat != parseHex b
        || (queenAttacks sq occ.toUInt64).toNat != parseHex q then
      s := s.report "model" "wrapper" s!"sq={sq} occ={hex occ}"
  | _ => pure ()
  return s

partial def tloop (h : IO.FS.Stream) (s : TSt) : IO TSt := do
  let line ← h.getLine
  if line.isEmpty then return s
  tloop h (tstep s line.trimAsciiEnd.toString)

def runTables : IO UInt32 := do
  let s ← tloop (← IO.getStdin) {}
  for r in s.reports do IO.println r
  let samples := ",".intercalate (s.samples.toList.map fun x => "\"" ++ x ++ "\"")
  IO.println ("SUMMARY {" ++ s!"\"lines\":{s.lineNo},\"rays\":{s.rays},\"leaper_entries\":{s.leapers},\"slider_lookups\":{s.sliders},\"wrapper_lookups\":{s.wrappers},\"model_mismatches\":{s.nModel},\"spec_mismatches\":{s.nSpec},\"samples\":[{samples}]" ++ "}")
  return (if s.nModel + s.nSpec == 0 then 0 else 1)

end RCE.Driver
