import RCE.Driver.Codec
import RCE.Model.Uci
/-! Replays the `uci` stream: per-line parser verdicts and the session position after every executed
    command, against the UCI model; and against the specs: the position a `position` command must set
    up (rules spec), no panic, every `isready` answered, the loop ends at `quit` / end of input. -/
namespace RCE.Driver
open RCE RCE.Codec RCE.Uci

structure USt where
  lineNo : Nat := 0
  sid : String := ""
  ilines : Array String := #[]
  plines : Array String := #[]
  nExec : Option Nat := none
  readyoks : Nat := 0
  blines : Array String := #[]
  panicked : Bool := false
  -- statistics
  sessions : Nat := 0
  lines : Nat := 0
  rejected : Nat := 0
  okCmds : Nat := 0
  positionsOk : Nat := 0
  positionsRefused : Nat := 0
  goParsed : Nat := 0
  quits : Nat := 0
  nModel : Nat := 0
  nSpec : Nat := 0
  reports : Array String := #[]
  samples : Array String := #[]
  distinct : Std.HashMap String Unit := {}

def USt.report (s : USt) (cls props kind detail : String) : USt :=
  let msg := s!"MISMATCH class={cls} props={props} kind={kind} line={s.lineNo} session={s.sid} {detail}"
  let s := if cls == "model" then { s with nModel := s.nModel + 1 } else { s with nSpec := s.nSpec + 1 }
  if keepReport s.reports s!"class={cls} props={props} kind={kind} " then { s with reports := s.reports.push msg } else s

def optNat (o : Option Nat) : String := match o with | some n => toString n | none => "-"

/-- same rendering as `uci::verif::parse_kind` -/
def renderParsed : Parsed → String
  | .rejected _ => "rejected"
  | .panic _ => "panic"
  | .ok .uci => "ok uci"
  | .ok .isready => "ok isready"
  | .ok .ucinewgame => "ok ucinewgame"
  | .ok .stop => "ok stop"
  | .ok .quit => "ok quit"
  | .ok (.setoption n v) => s!"ok setoption [{n}] [{v.getD "<none>"}]"
  | .ok (.position k m) =>
    let ks := match k with | .startpos => "startpos" | .fen f => s!"fen[{f}]"
    let ms := match m with | some l => ",".intercalate l | none => "<none>"
    s!"ok position {ks} moves[{ms}]"
  | .ok (.go l) =>
    s!"ok go depth={optNat l.depth} nodes={optNat l.nodes} movetime={optNat l.movetime} wtime={optNat l.wtime} btime={optNat l.btime} winc={optNat l.winc} binc={optNat l.binc}"

def isAscii (s : String) : Bool := s.toList.all fun c => c.toNat < 128

/-- does the implementation's state (a dump line) stand for the rules position `sp`? -/
def implMatchesSpec (dumpLine : String) (sp : Rules.Pos) : Bool :=
  let im := parseDump dumpLine
  ((List.range 64).all fun sq => implPieceAt im.bbs sq == sp.at sq) &&
  im.turnWhite == (sp.turn == .white) &&
  im.rights == (b01 sp.wk ++ b01 sp.wq ++ b01 sp.bk ++ b01 sp.bq) &&
  im.ep == sp.ep && im.lastClock == sp.half && im.fullmove == sp.full

/-- the position a `position` command describes according to the rules, or `none` if some move is not legal -/
def specPosition (k : PositionKind) (moves : Option (List String)) : Option Rules.Pos :=
  let p0 := match k with
    | .startpos => Rules.parse "rnbqkbnr/pppppppp/8/8/8/8/PPPPPPPP/RNBQKBNR w KQkq - 0 1".toList
    | .fen f => Rules.parse f.toList
  (moves.getD []).foldlM (fun p mv =>
    match (Rules.legalMoves p).find? (fun m => specMoveName m == mv) with
    | some m => some (Rules.apply p m)
    | none => none) p0

def finishSession (s : USt) (finalDump : Option String) : USt := Id.run do
  let mut s := s
  let n := s.nExec.getD 0
  s := { s with sessions := s.sessions + 1 }
  -- parser verdicts
  for i in List.range s.ilines.size do
    let line := s.ilines.getD i ""
    let impl := s.plines.getD i ""
    s := { s with lines := s.lines + 1, distinct := s.distinct.insert line () }
    if impl == "panic" then s := s.report "spec" "C15" "parser-panicked" s!"input=[{line}]"
    if impl == "rejected" then s := { s with rejected := s.rejected + 1 } else s := { s with okCmds := s.okCmds + 1 }
    if impl.startsWith "ok go" then s := { s with goParsed := s.goParsed + 1 }
    if isAscii line then
      let mine := renderParsed (parseCommand (tokenize line))
      if mine != impl then s := s.report "model" "C15,C08" "parse-verdict" s!"input=[{line}] impl=[{impl}] model=[{mine}]"
  -- the executed prefix on the model, command by command
  let mut sess : Session := {}
  let mut bi := 0
  let mut prevDump := dump Board.start
  let mut expectedReady := 0
  for i in List.range n do
    let line := s.ilines.getD i ""
    if sess.exited then break
    let parsed := parseCommand (tokenize line)
    let sess' := stepLine sess line
    match parsed with
    | .ok .quit => s := { s with quits := s.quits + 1 }
    | .ok c =>
      -- one `B` line per executed command
      let implB := s.blines.getD bi ""
      bi := bi + 1
      if c == .isready then expectedReady := expectedReady + 1
      let mine := dump sess'.board
      if isAscii line && mine != implB then
        s := s.report "model" "C08" "session-board" s!"after=[{line}] impl=[{implB}] model=[{mine}]"
      -- the rules' view of a position command
      match c with
      | .position k mv =>
        match specPosition k mv with
        | some sp =>
          s := { s with positionsOk := s.positionsOk + 1 }
          if !implMatchesSpec implB sp then
            s := s.report "spec" "C08" "position-not-set-up" s!"cmd=[{line}] impl=[{implB}] spec=[{String.ofList (Rules.render sp)}]"
        | none =>
          s := { s with positionsRefused := s.positionsRefused + 1 }
          if implB != prevDump then
            s := s.report "spec" "C08" "refused-position-changed-the-board" s!"cmd=[{line}] before=[{prevDump}] after=[{implB}]"
      | _ => pure ()
      prevDump := implB
    | _ => pure ()
    sess := sess'
  if s.panicked then s := s.report "spec" "C15" "command-loop-panicked" ""
  else
    if bi != s.blines.size then
      s := s.report "model" "C15" "executed-command-count" s!"impl={s.blines.size} model={bi}"
    if s.readyoks != expectedReady then
      s := s.report "spec" "C15" "isready-not-answered" s!"readyok={s.readyoks} isready-commands={expectedReady}"
    match finalDump with
    | some f => if f != dump sess.board then s := s.report "model" "C08" "final-board" s!"impl=[{f}] model=[{dump sess.board}]"
    | none => s := s.report "spec" "C15" "loop-did-not-return" ""
  if s.samples.size < 3 then
    s := { s with samples := s.samples.push (" / ".intercalate (s.ilines.toList.take 4)) }
  return { s with ilines := #[], plines := #[], blines := #[], nExec := none, readyoks := 0, panicked := false }

def ustep (s : USt) (line : String) : USt :=
  let s := { s with lineNo := s.lineNo + 1 }
  if line.startsWith "U " then { s with sid := (line.drop 2).toString }
  else if line.startsWith "I " || line == "I" then { s with ilines := s.ilines.push (line.drop 2).toString }
  else if line.startsWith "P " then { s with plines := s.plines.push (line.drop 2).toString }
  else if line.startsWith "E " then { s with nExec := some (line.drop 2).toString.toNat! }
  else if line.startsWith "B " then { s with blines := s.blines.push (line.drop 2).toString }
  else if line == "readyok" then { s with readyoks := s.readyoks + 1 }
  else if line.startsWith "X panic" then finishSession { s with panicked := true } none
  else if line.startsWith "F " then finishSession s (some (line.drop 2).toString)
  else s

partial def uloop (h : IO.FS.Stream) (s : USt) : IO USt := do
  let line ← h.getLine
  if line.isEmpty then return s
  -- keep interior blanks: only the line terminator is dropped
  let l := if line.endsWith "\n" then (line.dropEnd 1).toString else line
  uloop h (ustep s l)

def runUci : IO UInt32 := do
  let s ← uloop (← IO.getStdin) {}
  for r in s.reports do IO.println r
  let samples := ",".intercalate (s.samples.toList.map fun x => "\"" ++ ((x.replace "\"" "'").replace "\t" " ") ++ "\"")
  IO.println ("SUMMARY {" ++ s!"\"lines\":{s.lineNo},\"sessions\":{s.sessions},\"input_lines\":{s.lines},\"distinct_lines\":{s.distinct.size},\"rejected\":{s.rejected},\"accepted\":{s.okCmds},\"go_lines_parsed\":{s.goParsed},\"positions_set\":{s.positionsOk},\"positions_refused\":{s.positionsRefused},\"quits\":{s.quits},\"model_mismatches\":{s.nModel},\"spec_mismatches\":{s.nSpec},\"samples\":[{samples}]" ++ "}")
  return (if s.nModel + s.nSpec == 0 then 0 else 1)

end RCE.Driver
