import RCE.Driver.Codec
import RCE.Proofs.KeyPartsDef
import RCE.Model.Search
import Std.Data.HashMap
/-! Replays a `walk` / `fen` stream of the harness on the bitboard model and on the rules spec, and
    reports every difference.  Classes of report:
    * `model` — implementation ≠ hand-written model (the correspondence is broken),
    * `spec`  — implementation ≠ independent oracle (a property is violated by the implementation),
    each tagged with the properties it bears on. -/
namespace RCE.Driver
open RCE RCE.Codec RCE.Proofs

structure Frame where
  mb : Board
  sp : Rules.Pos
  key : Nat
  mv : String

structure Stats where
  positions : Nat := 0
  lines : Nat := 0
  moves : Nat := 0
  unmakes : Nat := 0
  roots : Nat := 0
  withEp : Nat := 0
  withRights : Nat := 0
  inCheck : Nat := 0
  mates : Nat := 0
  stalemates : Nat := 0
  repeated : Nat := 0
  castleMoves : Nat := 0
  epMoves : Nat := 0
  promoMoves : Nat := 0
  captureMoves : Nat := 0
  legalTotal : Nat := 0
  legalMax : Nat := 0
  maxDepth : Nat := 0
  fenLoads : Nat := 0
  perturbed : Nat := 0
  perturbations : Nat := 0

structure St where
  mb : Board := Board.start
  sp : Rules.Pos := default
  stack : List Frame := []
  rootFen : String := ""
  lastD : String := ""
  lineNo : Nat := 0
  stats : Stats := {}
  /-- position identity (placement, turn, rights, ep) ↦ key, and back, over the whole run (C05) -/
  idToKey : Std.HashMap String Nat := {}
  keyToId : Std.HashMap Nat String := {}
  reports : Array String := #[]
  nModel : Nat := 0
  nSpec : Nat := 0
  samples : Array String := #[]

def St.path (s : St) : String := " ".intercalate (s.stack.reverse.map (·.mv))

def St.report (s : St) (cls : String) (props : String) (kind : String) (detail : String) : St :=
  let msg := s!"MISMATCH class={cls} props={props} kind={kind} line={s.lineNo} root=[{s.rootFen}] moves=[{s.path}] {detail}"
  let s := if cls == "model" then { s with nModel := s.nModel + 1 } else { s with nSpec := s.nSpec + 1 }
  if keepReport s.reports s!"class={cls} props={props} kind={kind} " then { s with reports := s.reports.push msg } else s

def specIdentity (p : Rules.Pos) : String :=
  String.ofList (Rules.renderPlacement p ++ [' ', if p.turn == .white then 'w' else 'b', ' '] ++ Rules.renderCastling p ++ [' ']
    ++ (match p.ep with | some f => [Char.ofNat (97 + f)] | none => ['-']))

def rightsStr (p : Rules.Pos) : String := b01 p.wk ++ b01 p.wq ++ b01 p.bk ++ b01 p.bq

/-- `D` line: the full state -/
def onDump (s : St) (rest : String) : St := Id.run do
  let mut s := { s with lastD := rest }
  let mine := dump s.mb
  -- at the root of a path the state is what `Board::from_fen` built: a difference there is the FEN reader's (C07)
  let atRoot := s.stack.isEmpty
  let pr (p : String) : String := if atRoot then "C07," ++ p else p
  if mine != rest then
    s := s.report "model" (pr "C02,C03,C04") "state" s!"impl=[{rest}] model=[{mine}]"
  let im := parseDump rest
  -- spec: placement, turn, rights, ep, clocks
  let sp := s.sp
  let placementOk := (List.range 64).all fun sq => implPieceAt im.bbs sq == sp.at sq
  if !placementOk then s := s.report "spec" (pr "C03") "placement" s!"impl=[{rest}] spec=[{String.ofList (Rules.render sp)}]"
  if im.turnWhite != (sp.turn == .white) then s := s.report "spec" (pr "C03") "turn" s!"impl=[{rest}]"
  if im.rights != rightsStr sp then s := s.report "spec" (pr "C03") "castling-rights" s!"impl={im.rights} spec={rightsStr sp}"
  if im.ep != sp.ep then s := s.report "spec" (pr "C03") "en-passant-file" s!"impl={im.ep} spec={sp.ep}"
  if im.lastClock != sp.half then s := s.report "spec" (pr "C03") "halfmove-clock" s!"impl={im.lastClock} spec={sp.half}"
  if im.fullmove != sp.full then s := s.report "spec" (pr "C03") "fullmove" s!"impl={im.fullmove} spec={sp.full}"
  -- the union boards must be the unions
  let u (l : List Nat) := l.foldl (fun a i => a ||| im.bbs.getD i 0) 0
  if im.bbs.getD 12 0 != u [0,1,2,3,4,5] || im.bbs.getD 13 0 != u [6,7,8,9,10,11] || im.bbs.getD 14 0 != u [12,13] then
    s := s.report "spec" "C03" "union-boards" s!"impl=[{rest}]"
  -- repetition record = multiset of the keys of the earlier positions on this path
  let expected := rle (sortNat (s.stack.map (·.key)))
  if im.ph != expected then
    s := s.report "spec" "C02,C03" "repetition-record" s!"impl={im.ph} expected={expected}"
  -- C05 bookkeeping: identity ↔ key
  let ident := specIdentity sp
  match s.idToKey[ident]? with
  | some k => if k != im.key then s := s.report "spec" "C04" "same-position-different-key" s!"id=[{ident}] keys={hex k},{hex im.key}"
  | none => s := { s with idToKey := s.idToKey.insert ident im.key }
  match s.keyToId[im.key]? with
  | some i => if i != ident then s := s.report "spec" "C05" "key-collision" s!"key={hex im.key} a=[{i}] b=[{ident}]"
  | none => s := { s with keyToId := s.keyToId.insert im.key ident }
  return s

def onLegal (s : St) (rest : String) : St := Id.run do
  let mut s := s
  let (ml, mbAfter) := s.mb.legalMoves
  let mine := " ".intercalate (ml.map fun m => s!"{m.notation}={moveFields m}")
  if mine != rest then s := s.report "model" "C01" "legal-list" s!"impl=[{rest}] model=[{mine}]"
  if mbAfter != s.mb then s := s.report "model" "C02" "model-legal-moves-not-pure" ""
  let implNames := (if rest.isEmpty then [] else rest.splitOn " ").map fun e => (e.splitOn "=").headD ""
  let specMoves := Rules.legalMoves s.sp
  let specNames := sortStrs (specMoves.map specMoveName)
  let implSorted := sortStrs implNames
  if implSorted != specNames then
    s := s.report "spec" "C01" "legal-set" s!"impl=[{" ".intercalate implSorted}] spec=[{" ".intercalate specNames}]"
  -- statistics
  let n := implNames.length
  let chk := Rules.inCheck s.sp s.sp.turn
  let st := s.stats
  let st := { st with positions := st.positions + 1, legalTotal := st.legalTotal + n, legalMax := max st.legalMax n,
                      withEp := st.withEp + (if s.sp.ep.isSome then 1 else 0),
                      withRights := st.withRights + (if s.sp.wk || s.sp.wq || s.sp.bk || s.sp.bq then 1 else 0),
                      inCheck := st.inCheck + (if chk then 1 else 0),
                      mates := st.mates + (if n == 0 && chk then 1 else 0),
                      stalemates := st.stalemates + (if n == 0 && !chk then 1 else 0),
                      repeated := st.repeated + (if s.mb.positionReached s.mb.zkey then 1 else 0),
                      maxDepth := max st.maxDepth s.stack.length }
  s := { s with stats := st }
  if s.samples.size < 3 && n > 0 && s.stack.length > 0 then
    s := { s with samples := s.samples.push s!"root=[{s.rootFen}] moves=[{s.path}] legal=[{" ".intercalate implSorted}]" }
  return s

def onGen (s : St) (rest : String) : St :=
  let mine := " ".intercalate (s.mb.allMoves.map moveFields)
  if mine != rest then s.report "model" "C01" "pseudo-legal-order" s!"impl=[{rest}] model=[{mine}]" else s

def onCheck (s : St) (rest : String) : St := Id.run do
  let mut s := s
  let mine := s!"{b01 (s.mb.isInCheck .white)} {b01 (s.mb.isInCheck .black)} {hex64 (s.mb.attackedSquares .white)} {hex64 (s.mb.attackedSquares .black)}"
  if mine != rest then s := s.report "model" "C01" "check-status" s!"impl=[{rest}] model=[{mine}]"
  let t := rest.splitOn " "
  let specW := b01 (Rules.inCheck s.sp .white)
  let specB := b01 (Rules.inCheck s.sp .black)
  if t.getD 0 "" != specW || t.getD 1 "" != specB then
    s := s.report "spec" "C01" "in-check" s!"impl=[{rest}] spec=[{specW} {specB}]"
  -- attacked squares against the spec (squares attacked by the opponent of the given colour)
  let att (c : Rules.Color) := bbOfSquares ((List.range 64).filter fun t => Rules.attacked s.sp t c)
  if parseHex (t.getD 2 "") != att .black || parseHex (t.getD 3 "") != att .white then
    s := s.report "spec" "C01,C06" "attacked-squares" s!"impl=[{rest}] spec=[{hex (att .black)} {hex (att .white)}]"
  return s

def onKey (s : St) (rest : String) : St := Id.run do
  let mut s := s
  let (nums, fen) := match rest.splitOn " | " with
    | [a, b] => (a.splitOn " ", b)
    | _ => ([], "")
  let scratch := parseHex (nums.getD 0 "")
  let reload := parseHex (nums.getD 1 "")
  let ev := (nums.getD 2 "0").toInt!
  let evM := (nums.getD 3 "0").toInt!
  let evS := (nums.getD 4 "0").toInt!
  let im := parseDump s.lastD
  if scratch != im.key then s := s.report "spec" "C04" "incremental-vs-scratch-key" s!"incremental={hex im.key} scratch={hex scratch}"
  if reload != im.key then s := s.report "spec" "C04,C07" "fen-reload-key" s!"incremental={hex im.key} reload={hex reload} fen=[{fen}]"
  if s.mb.scratchKey.toNat != scratch then s := s.report "model" "C04,C05" "scratch-key" s!"impl={hex scratch} model={hex64 s.mb.scratchKey}"
  let specFen := String.ofList (Rules.render s.sp)
  if specFen != fen then s := s.report "spec" "C03" "fen-of-state" s!"impl=[{fen}] spec=[{specFen}]"
  match Board.fromFen? fen.toList with
  | some fb => if fb.zkey.toNat != reload then s := s.report "model" "C07" "fen-reload-key" s!"impl={hex reload} model={hex64 fb.zkey}"
  | none => s := s.report "model" "C07" "fen-rejected-by-model" s!"fen=[{fen}]"
  -- evaluation and its symmetries
  if s.mb.evaluate != ev then s := s.report "model" "C17" "eval" s!"impl={ev} model={s.mb.evaluate}"
  if (mirrorBoard s.mb).evaluate != evM then s := s.report "model" "C17" "eval-mirror" s!"impl={evM} model={(mirrorBoard s.mb).evaluate}"
  if evM != ev then s := s.report "spec" "C17" "mirror-symmetry" s!"eval={ev} mirror={evM} fen=[{fen}]"
  if evS != -ev then s := s.report "spec" "C17" "side-swap-antisymmetry" s!"eval={ev} swapped={evS} fen=[{fen}]"
  return s

def onNew (s : St) (rest : String) : St := Id.run do
  let mut s := { s with stack := [], rootFen := rest, stats := { s.stats with roots := s.stats.roots + 1, fenLoads := s.stats.fenLoads + 1 } }
  match Board.fromFen? rest.toList with
  | some b => s := { s with mb := b }
  | none => s := s.report "model" "C07" "fen-rejected-by-model" s!"fen=[{rest}]"
  s := { s with sp := Rules.parse rest.toList }
  return s

def onMove (s : St) (rest : String) (light : Bool := false) : St := Id.run do
  let mut s := s
  let (ml, _) := s.mb.legalMoves
  -- a light move line (`m`) comes without a state dump before it (very long games): the earlier position's key is the model's
  let im := if light then { parseDump s.lastD with key := s.mb.zkey.toNat } else parseDump s.lastD
  let t := rest.splitOn ":"
  let src := (t.getD 0 "0").toNat!
  let dst := (t.getD 1 "0").toNat!
  let promo : Option Rules.Kind := match t.getD 4 "-" with
    | "-" => none
    | c => some (specKind (kindOfCode c.toNat!).pk)
  let flags := t.getD 5 "000"
  let name := sqName src ++ sqName dst ++ (match promo with | some k => promoCh k | none => "")
  let frame : Frame := { mb := s.mb, sp := s.sp, key := im.key, mv := name }
  match ml.find? (fun m => moveFields m == rest) with
  | some m => s := { s with mb := s.mb.makeMove m }
  | none => s := s.report "model" "C01" "move-not-in-model-legal-list" s!"move={rest}"
  match (Rules.legalMoves s.sp).find? (fun m => m.src == src && m.dst == dst && m.promo == promo) with
  | some m => s := { s with sp := Rules.apply s.sp m }
  | none => s := s.report "spec" "C01" "move-not-legal-in-spec" s!"move={name}"
  let st := s.stats
  let st := { st with moves := st.moves + 1,
                      castleMoves := st.castleMoves + (if flags.startsWith "1" then 1 else 0),
                      epMoves := st.epMoves + (if flags == "010" then 1 else 0),
                      promoMoves := st.promoMoves + (if promo.isSome then 1 else 0),
                      captureMoves := st.captureMoves + (if t.getD 3 "-" != "-" then 1 else 0) }
  return { s with stack := frame :: s.stack, stats := st }

def onUnmake (s : St) : St := Id.run do
  let mut s := s
  match s.stack with
  | [] => return s.report "model" "C02" "unmake-on-empty-stack" ""
  | f :: rest =>
    let mb' := s.mb.unmakeMove
    if mb' != f.mb then s := s.report "model" "C02" "model-unmake-not-inverse" s!"move={f.mv}"
    -- the implementation's next `D` line is compared with `mb'`, i.e. with the state recorded before the move
    return { s with mb := f.mb, sp := f.sp, stack := rest, stats := { s.stats with unmakes := s.stats.unmakes + 1 } }

def rotl (x : UInt64) (n : Nat) : UInt64 := if n % 64 == 0 then x else (x <<< (n % 64).toUInt64) ||| (x >>> (64 - n % 64).toUInt64)

/-- `P` line: every single-component perturbation of the current position must change the key;
    the model enumerates the same perturbations in the same order and compares count and checksum -/
def onPerturb (s : St) (rest : String) : St := Id.run do
  let mut s := s
  let t := rest.splitOn " "
  let total := (t.getD 0 "0").toNat!
  let changed := (t.getD 1 "0").toNat!
  let acc := parseHex (t.getD 2 "0")
  if changed != total then
    s := s.report "spec" "C05" "perturbation-did-not-change-key" s!"total={total} changed={changed} unchanged=[{t.getD 3 ""}]"
  if ((t.getD 3 "").splitOn "alias:").length > 1 then
    s := s.report "spec" "C05" "two-changes-move-the-key-alike" s!"changing both gives the same key as neither: [{t.getD 3 ""}]"
  -- model side
  let b := s.mb
  let pa : Nat → Option Kind := fun i => b.pieceAt (Square.ofIdx i)
  let k0 := KeyParts.keyOfParts pa b.rights b.ep b.turn
  let mut n := 0
  let mut ch := 0
  let mut a : UInt64 := 0
  for sq in List.range 64 do
    let cur := pa sq
    for code in List.range 13 do
      let newc : Option Kind := if code == 12 then none else some (kindOfCode code)
      if newc != cur then
        let k := KeyParts.keyOfParts (fun i => if i == sq then newc else pa i) b.rights b.ep b.turn
        n := n + 1; a := a ^^^ rotl k n; if k != k0 then ch := ch + 1
  let k := KeyParts.keyOfParts pa b.rights b.ep b.turn.opp
  n := n + 1; a := a ^^^ rotl k n; if k != k0 then ch := ch + 1
  let r := b.rights
  for r' in [{ r with wk := !r.wk }, { r with wq := !r.wq }, { r with bk := !r.bk }, { r with bq := !r.bq }] do
    let k := KeyParts.keyOfParts pa r' b.ep b.turn
    n := n + 1; a := a ^^^ rotl k n; if k != k0 then ch := ch + 1
  for f in List.range 9 do
    let newf : Option Nat := if f == 8 then none else some f
    if newf != b.ep then
      let k := KeyParts.keyOfParts pa b.rights newf b.turn
      n := n + 1; a := a ^^^ rotl k n; if k != k0 then ch := ch + 1
  if n != total || ch != changed || a.toNat != acc then
    s := s.report "model" "C05" "perturbation-keys" s!"impl=[{rest}] model=[{n} {ch} {hex64 a}]"
  return { s with stats := { s.stats with perturbed := s.stats.perturbed + 1, perturbations := s.stats.perturbations + total } }

/-- `O` line: the move orderer's output for this position's generated moves, given a cache move and two killers -/
def onOrder (s : St) (rest : String) : St := Id.run do
  let (hd, ordered) := match rest.splitOn " | " with
    | [a, b] => (a.splitOn " ", if b.isEmpty then [] else b.splitOn " ")
    | _ => ([], [])
  let all := s.mb.allMoves
  let find (f : String) : Option Ply := if f == "-" then none else all.find? (fun m => moveFields m == f)
  let tm := find (hd.getD 0 "-")
  let k1 := find (hd.getD 1 "-")
  let k2 := find (hd.getD 2 "-")
  let mine := (RCE.Search.orderMoves chessGame tm (k1, k2) all).map moveFields
  let mut s := s
  if mine != ordered then
    s := s.report "model" "C11,C16,C12" "move-order" s!"given=[{" ".intercalate hd}] impl=[{" ".intercalate (ordered.take 12)}…({ordered.length})] model=[{" ".intercalate (mine.take 12)}…({mine.length})]"
  -- whatever the order: every generated move exactly once (a dropped move is never searched)
  if sortStrs ordered != sortStrs (all.map moveFields) then
    s := s.report "spec" "C11,C12,C16" "orderer-drops-or-repeats-moves" s!"generated={all.length} handed-out={ordered.length}"
  return s

/-- `Y` line: evaluation of a live board (or of a copy of it with one kind substituted) vs a fresh load of the same position -/
def onPurity (s : St) (rest : String) : St :=
  let t := rest.splitOn " "
  if t.getD 0 "" != t.getD 1 "" then
    s.report "spec" "C17" "evaluation-depends-on-history" s!"live={t.getD 0 ""} fresh-load={t.getD 1 ""} at={t.getD 2 ""}"
  else s

/-- `H` line: the keys (among those seen in this game) that `position_reached` reports — public API only.
    Expected: exactly the keys of the earlier positions on the current path. -/
def onReached (s : St) (rest : String) : St :=
  let impl := sortNat ((if rest.isEmpty then [] else rest.splitOn ",").map parseHex)
  let expected := (rle (sortNat (s.stack.map (·.key)))).map (·.1)
  if impl != expected then
    s.report "spec" "C02,C03" "position-reached" s!"reached=[{",".intercalate (impl.map hex)}] earlier-positions-on-path=[{",".intercalate (expected.map hex)}]"
  else s

def onAfter (s : St) (rest : String) : St :=
  if rest == "same" then s
  else s.report "spec" "C02" "legal-move-query-changed-the-position" s!"before=[{s.lastD}] after=[{rest}]"

def step (s : St) (line : String) : St :=
  let s := { s with lineNo := s.lineNo + 1 }
  if line.length < 1 then s else
  let tag := (line.take 1).toString
  let rest := (line.drop 2).toString
  match tag with
  | "N" => onNew s rest
  | "D" => onDump s rest
  | "G" => onGen s rest
  | "L" => onLegal s rest
  | "A" => onAfter s rest
  | "C" => onCheck s rest
  | "K" => onKey s rest
  | "M" => onMove s rest
  | "m" => onMove s rest true
  | "U" => onUnmake s
  | "P" => onPerturb s rest
  | "Y" => onPurity s rest
  | "O" => onOrder s rest
  | "H" => onReached s rest
  | _ => s

def jsonStr (s : String) : String :=
  "\"" ++ (s.foldl (fun acc c => if c == '"' then acc ++ "\\\"" else if c == '\\' then acc ++ "\\\\" else acc.push c) "") ++ "\""

def summary (s : St) : String :=
  let st := s.stats
  let samples := ",".intercalate (s.samples.toList.map jsonStr)
  "SUMMARY {" ++ s!"\"lines\":{s.lineNo},\"positions\":{st.positions},\"distinct_positions\":{s.idToKey.size},\"distinct_keys\":{s.keyToId.size},\"moves\":{st.moves},\"unmakes\":{st.unmakes},\"roots\":{st.roots},\"with_ep\":{st.withEp},\"with_castling_rights\":{st.withRights},\"in_check\":{st.inCheck},\"checkmates\":{st.mates},\"stalemates\":{st.stalemates},\"repeated_positions\":{st.repeated},\"castle_moves\":{st.castleMoves},\"ep_moves\":{st.epMoves},\"promotion_moves\":{st.promoMoves},\"capture_moves\":{st.captureMoves},\"legal_total\":{st.legalTotal},\"legal_max\":{st.legalMax},\"max_depth\":{st.maxDepth},\"perturbed_positions\":{st.perturbed},\"perturbations\":{st.perturbations},\"model_mismatches\":{s.nModel},\"spec_mismatches\":{s.nSpec},\"samples\":[{samples}]" ++ "}"

partial def loop (h : IO.FS.Stream) (s : St) : IO St := do
  let line ← h.getLine
  if line.isEmpty then return s
  loop h (step s (line.trimAsciiEnd.toString))

def runWalk : IO UInt32 := do
  let s ← loop (← IO.getStdin) {}
  for r in s.reports do IO.println r
  IO.println (summary s)
  return (if s.nModel + s.nSpec == 0 then 0 else 1)

end RCE.Driver
