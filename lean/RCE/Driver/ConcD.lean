import RCE.Model.Conc
/-! `conc` mode: `C <script tokens> | <labels>` → the fixed protocol model's counts after that schedule. -/
namespace RCE.Driver
open RCE.Conc

partial def cloop (h : IO.FS.Stream) : IO Unit := do
  let line ← h.getLine
  if line.isEmpty then return ()
  let l := line.trimAsciiEnd.toString
  if l.startsWith "C " then
    match (l.drop 2).toString.splitOn " | " with
    | [sc, lb] =>
      let script := ((sc.splitOn " ").filter (· ≠ "")).map fun t =>
        if t == "gi" then Cmd.go none else if t == "gf" then Cmd.go (some 0) else if t == "s" then Cmd.stop
        else if t == "r" then Cmd.isready else Cmd.position
      let sched := ((lb.splitOn " ").filter (· ≠ "")).map fun t => if t == "m" then Lbl.main else Lbl.search
      let s := run true (init script) sched
      IO.println s!"R bestmoves={s.bestmoves} refused={s.refused} accepted={s.accepted} readyoks={s.readyoks} left={s.script.length} nodesAfterStop={s.nodesAfterStop}"
    | _ => IO.println "R bad"
  cloop h

def runConc : IO UInt32 := do
  cloop (← IO.getStdin)
  return 0

end RCE.Driver
