import RCE.Model.Fen
import RCE.Model.Eval
import RCE.Spec.FenRender
/-! Text encodings shared with the Rust harness (`harness/src/hx/mod.rs`, `src/board/verif.rs`). -/
namespace RCE.Codec
open RCE

def hex (n : Nat) : String := String.ofList (Nat.toDigits 16 n)
def hex64 (x : UInt64) : String := hex x.toNat

def parseHex (s : String) : Nat :=
  s.foldl (fun n c =>
    let d := if c.isDigit then c.toNat - 48 else if 'a' ≤ c ∧ c ≤ 'f' then c.toNat - 87
             else if 'A' ≤ c ∧ c ≤ 'F' then c.toNat - 55 else 0
    n * 16 + d) 0

def optKind (k : Option Kind) : String := match k with | some k => toString k.code | none => "-"
def b01 (b : Bool) : String := if b then "1" else "0"

def kindOfCode (c : Nat) : Kind := ⟨pkOfIdx (c % 6), if c < 6 then .white else .black⟩

/-- `move_fields` of the harness -/
def moveFields (p : Ply) : String :=
  s!"{p.start.idx}:{p.dest.idx}:{p.piece.code}:{optKind p.captured}:{optKind p.promoted}:{b01 p.isCastles}{b01 p.enPassant}{b01 p.isDoublePush}"

/-- `ply_fields` of the board hook -/
def plyFields (p : Ply) : String :=
  moveFields p ++ s!":{p.clock}:{b01 p.rights.wk}{b01 p.rights.wq}{b01 p.rights.bk}{b01 p.rights.bq}"

def sortNat (l : List Nat) : List Nat := (l.toArray.qsort (· < ·)).toList

/-- run-length encode a sorted list -/
def rle : List Nat → List (Nat × Nat)
  | [] => []
  | x :: xs => match rle xs with
    | (y, c) :: r => if x == y then (y, c + 1) :: r else (x, 1) :: (y, c) :: r
    | [] => [(x, 1)]

def bbList (b : PBB) : List BB := [b.wp, b.wk, b.wq, b.wr, b.wn, b.wb, b.bp, b.bk, b.bq, b.br, b.bn, b.bb, b.white, b.black, b.all]

/-- `board::verif::dump` -/
def dump (b : Board) : String :=
  let bbs := ",".intercalate ((bbList b.bbs).map hex64)
  let hist := ",".intercalate (b.history.reverse.map plyFields)
  let ph := ",".intercalate ((rle (sortNat (b.posHist.map UInt64.toNat))).map fun kc => s!"{hex kc.1}*{kc.2}")
  let ep := match b.ep with | some f => toString f | none => "-"
  s!"t={if b.turn == .white then "w" else "b"} fm={b.fullmove} ep={ep} key={hex64 b.zkey} bb={bbs} hist={hist} ph={ph}"

/-- value of `name=` in a dump line -/
def field (parts : List String) (name : String) : String :=
  match parts.find? (fun p => p.startsWith (name ++ "=")) with
  | some p => (p.drop (name.length + 1)).toString
  | none => ""

def splitComma (s : String) : List String := if s.isEmpty then [] else s.splitOn ","

/-- the implementation's state as read from a dump line, in spec terms -/
structure ImplState where
  turnWhite : Bool
  fullmove : Nat
  ep : Option Nat
  key : Nat
  bbs : List Nat
  lastClock : Nat
  rights : String
  ph : List (Nat × Nat)
  histLen : Nat

def parseDump (s : String) : ImplState :=
  let parts := s.splitOn " "
  let hist := splitComma (field parts "hist")
  let last := (hist.getLast?.getD "").splitOn ":"
  { turnWhite := field parts "t" == "w"
    fullmove := (field parts "fm").toNat!
    ep := let e := field parts "ep"; if e == "-" then none else some e.toNat!
    key := parseHex (field parts "key")
    bbs := (splitComma (field parts "bb")).map parseHex
    lastClock := (last.getD 6 "0").toNat!
    rights := last.getD 7 "0000"
    ph := (splitComma (field parts "ph")).map fun e =>
      match e.splitOn "*" with
      | [k, c] => (parseHex k, c.toNat!)
      | _ => (0, 0)
    histLen := hist.length }

/-- mailbox contents of square `sq` according to the twelve piece boards of a dump -/
def implPieceAt (bbs : List Nat) (sq : Nat) : Option Rules.Piece :=
  let t (i : Nat) : Bool := (bbs.getD i 0) >>> sq % 2 == 1
  if t 0 then some ⟨.white, .pawn⟩ else if t 1 then some ⟨.white, .king⟩ else if t 2 then some ⟨.white, .queen⟩
  else if t 3 then some ⟨.white, .rook⟩ else if t 4 then some ⟨.white, .knight⟩ else if t 5 then some ⟨.white, .bishop⟩
  else if t 6 then some ⟨.black, .pawn⟩ else if t 7 then some ⟨.black, .king⟩ else if t 8 then some ⟨.black, .queen⟩
  else if t 9 then some ⟨.black, .rook⟩ else if t 10 then some ⟨.black, .knight⟩ else if t 11 then some ⟨.black, .bishop⟩
  else none

def sqName (s : Nat) : String := String.ofList [Char.ofNat (97 + s % 8), Char.ofNat (49 + s / 8)]
def promoCh : Rules.Kind → String
  | .queen => "q" | .rook => "r" | .bishop => "b" | .knight => "n" | _ => "?"
def specMoveName (m : Rules.Move) : String :=
  sqName m.src ++ sqName m.dst ++ (match m.promo with | some k => promoCh k | none => "")

def sortStrs (l : List String) : List String := (l.toArray.qsort (· < ·)).toList

def specKind : PK → Rules.Kind
  | .pawn => .pawn | .king => .king | .queen => .queen | .rook => .rook | .bishop => .bishop | .knight => .knight

/-- bitboard of a list of squares -/
def bbOfSquares (l : List Nat) : Nat := l.foldl (fun acc s => acc ||| (1 <<< s)) 0

/-- keep at most a handful of reports of each (class, props, kind): a flood of one kind must not crowd out another -/
def keepReport (reports : Array String) (tag : String) : Bool :=
  reports.size < 600 && (reports.foldl (fun a r => if (r.splitOn tag).length > 1 then a + 1 else a) 0) < 6

end RCE.Codec
