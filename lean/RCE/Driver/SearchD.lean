import RCE.Driver.Codec
import RCE.Model.Search
import RCE.Spec.Negamax
/-! Replays the `search` stream: each case is run on the executable search model (`chessSearch`) and
    compared with everything the real `Search::search` showed: its own info / bestmove lines, every cache
    insert (observer hook), node counter, seldepth, poll count, final cache checksum.  Property-level
    checks (bestmove legal per the rules spec, PVs legal, depths in order, no write after an abort,
    root score = plain negamax when the cache is off, repeated runs identical) use only the
    implementation's output and the specs. -/
namespace RCE.Driver
open RCE RCE.Codec RCE.Search

/-- the spec-side game: a rules position with the identities of the earlier positions (game + path) -/
structure SpecNode where
  pos : Rules.Pos
  hist : List String

def specIdent (p : Rules.Pos) : String :=
  String.ofList (Rules.renderPlacement p ++ [' ', if p.turn == .white then 'w' else 'b', ' '] ++ Rules.renderCastling p ++ [' ']
    ++ (match p.ep with | some f => [Char.ofNat (97 + f)] | none => ['-']))

def specMaterial (p : Rules.Pos) (c : Rules.Color) : Int :=
  (List.range 64).foldl (fun acc sq => match p.at sq with
    | some pc => if pc.color == c then acc + (match pc.kind with
        | .queen => 900 | .rook => 500 | .bishop => 300 | .knight => 300 | .pawn => 100 | .king => 0) else acc
    | none => acc) 0

def specGame : Game SpecNode Rules.Move where
  allMoves := fun n => Rules.legalMoves n.pos
  legal := fun _ _ => true
  play := fun n m => { pos := Rules.apply n.pos m, hist := specIdent n.pos :: n.hist }
  inCheck := fun n => Rules.inCheck n.pos n.pos.turn
  eval := fun n => specMaterial n.pos n.pos.turn - specMaterial n.pos n.pos.turn.opp
  fifty := fun n => decide (n.pos.half ≥ 100)
  repeated := fun n => n.hist.contains (specIdent n.pos)
  key := fun _ => 0
  isCapture := fun _ => false   -- overridden below through `specCaptures`
  isPromotion := fun _ => false
  staticScore := fun _ => 0
  defaultMove := default

/-- captures need the position: a separate negamax for the spec side -/
def specIsCapture (p : Rules.Pos) (m : Rules.Move) : Bool :=
  (p.at m.dst).isSome || (match p.at m.src with
    | some pc => pc.kind == .pawn && m.src % 8 != m.dst % 8 && (p.at m.dst).isNone
    | none => false)

def specRefQuiesce : Nat → SpecNode → Nat → Int → Int → Int
  | 0, _, _, _, _ => 0
  | fuel + 1, n, ply, a, b =>
    if ply = 255 then 0 else
    let s := specGame.eval n
    if s ≥ b then s else
    refKids (fun c x y => specRefQuiesce fuel c (ply + 1) x y) specGame n ((Rules.legalMoves n.pos).filter (specIsCapture n.pos)) s (max a s) b

def specRefNegamax : Nat → SpecNode → Nat → Nat → Int → Int → Int
  | 0, _, _, _, _, _ => 0
  | fuel + 1, n, depth, ply, a, b =>
    if ply = 255 then 0 else
    if specGame.fifty n || specGame.repeated n then 0 else
    let depth := if specGame.inCheck n then depth + 1 else depth
    if depth = 0 then specRefQuiesce (fuel + 1) n ply a b else
    match Rules.legalMoves n.pos with
    | [] => if specGame.inCheck n then MINS + ply else 0
    | ms => refKids (fun c x y => specRefNegamax fuel c (depth - 1) (ply + 1) x y) specGame n ms (MINS - 1) a b

def specRootValue (n : SpecNode) (depth : Nat) : Int :=
  refKids (fun c x y => specRefNegamax 255 c (depth - 1) 1 x y) specGame n (Rules.legalMoves n.pos) (MINS - 1) (-INF) INF

structure Case where
  fen : String := ""
  moves : List String := []
  depth : Nat := 1
  nodes : Option Nat := none
  stop : Nat := 0
  cache : String := "fresh"
  tag : String := ""
  wit : String := ""
  /-- `[wtime, btime, winc, binc, movetime]` of the case (virtual clock) -/
  wtime : Option Nat := none
  btime : Option Nat := none
  winc : Option Nat := none
  binc : Option Nat := none
  movetime : Option Nat := none
  vdiv : Nat := 0
  raw : String := ""

structure SStats where
  cases : Nat := 0
  infoLines : Nat := 0
  writes : Nat := 0
  nodesTotal : Nat := 0
  aborted : Nat := 0
  completed : Nat := 0
  cacheOff : Nat := 0
  kept : Nat := 0
  withHistory : Nat := 0
  negamaxChecks : Nat := 0
  specNegamaxChecks : Nat := 0
  repeats : Nat := 0
  fallbackBest : Nat := 0
  mateScores : Nat := 0
  clockCases : Nat := 0
  mateInOne : Nat := 0
  mateInTwo : Nat := 0
  avoidable : Nat := 0
  longerMateKept : Nat := 0
  chainPairs : Nat := 0

structure SSt where
  lineNo : Nat := 0
  cur : Option Case := none
  skipping : Bool := false
  infos : Array String := #[]
  bests : Array String := #[]
  wlines : Array String := #[]
  vlines : Array String := #[]
  xlines : Array String := #[]
  tt : Table Ply := {}
  stats : SStats := {}
  nModel : Nat := 0
  nSpec : Nat := 0
  reports : Array String := #[]
  samples : Array String := #[]
  /-- previous case and its full implementation output, for the repeated-run comparison -/
  prevRaw : String := ""
  firstOut : Std.HashMap String (UInt64 × String) := {}
  prevOut : String := ""
  distinct : Std.HashMap String Unit := {}
  specBudget : Nat := 0

def SSt.report (s : SSt) (cls props kind detail : String) : SSt :=
  let c := match s.cur with | some c => c.raw | none => ""
  let msg := s!"MISMATCH class={cls} props={props} kind={kind} line={s.lineNo} case=[{c}] {detail}"
  let s := if cls == "model" then { s with nModel := s.nModel + 1 } else { s with nSpec := s.nSpec + 1 }
  if keepReport s.reports s!"class={cls} props={props} kind={kind} " then { s with reports := s.reports.push msg } else s

def between (s : String) (a b : String) : String :=
  match s.splitOn a with
  | _ :: r :: _ => ((r.splitOn b).headD "")
  | _ => ""

def parseCase (rest : String) : Case :=
  let fen := between rest "fen=[" "]"
  let moves := between rest "moves=[" "]"
  let tail := (rest.splitOn "] depth=").getD 1 ""
  let t := tail.splitOn " "
  let kv (name : String) : String :=
    match t.find? (fun x => x.startsWith (name ++ "=")) with
    | some x => (x.drop (name.length + 1)).toString | none => ""
  { fen := fen, moves := if moves.isEmpty then [] else moves.splitOn " ",
    depth := (t.headD "1").toNat!, nodes := (kv "nodes").toNat?, stop := (kv "stop").toNat!, cache := kv "cache",
    tag := kv "tag", wit := kv "wit", wtime := (kv "wtime").toNat?, btime := (kv "btime").toNat?, winc := (kv "winc").toNat?, binc := (kv "binc").toNat?,
    movetime := (kv "movetime").toNat?, vdiv := (kv "vdiv").toNat?.getD 0, raw := rest }

/-- drop `time T` and `nps X`, normalise blanks -/
def canonInfo (line : String) : String :=
  let toks := (line.splitOn " ").filter (· ≠ "")
  let rec go : List String → List String
    | "time" :: _ :: r => go r
    | "nps" :: _ :: r => go r
    | x :: r => x :: go r
    | [] => []
  " ".intercalate (go toks)

def renderInfo (i : InfoLine Ply) : String :=
  let d := if i.seldepth == 0 then s!"depth {i.depth}" else s!"depth {i.depth} seldepth {i.seldepth}"
  let sc := match i.score with
    | .cp s => s!" score cp {s}" | .mate n => s!" score mate {n}" | .none => ""
  let pv := " ".intercalate (i.pv.map Ply.notation)
  canonInfo s!"info {d} nodes {i.nodes}{sc} pv {pv}"

def boundCode : Bound → Nat | .exact => 0 | .lower => 1 | .upper => 2

def plyHash (p : Ply) : UInt64 :=
  let oc (k : Option Kind) : UInt64 := match k with | some k => k.code.toUInt64 | none => 12
  let h : UInt64 := p.start.idx.toUInt64
  let h := h * 64 + p.dest.idx.toUInt64
  let h := h * 13 + p.piece.code.toUInt64
  let h := h * 13 + oc p.captured
  let h := h * 13 + oc p.promoted
  h * 8 + (if p.isCastles then 4 else 0) + (if p.enPassant then 2 else 0) + (if p.isDoublePush then 1 else 0)

def entryHash (key : UInt64) (e : Entry Ply) : UInt64 :=
  let m : UInt64 := 0x100000001B3
  let h := key
  let h := h * m + (e.score + 32768).toNat.toUInt64
  let h := h * m + e.depth.toUInt64
  let h := h * m + (boundCode e.bound).toUInt64
  h * m + plyHash e.best

def ttSum (t : Table Ply) : UInt64 := t.fold (fun acc k e => acc + entryHash k e) 0

def renderWrite (w : Write Ply) : String :=
  s!"{w.site} {hex64 w.key} {w.entry.score} {w.entry.depth} {boundCode w.entry.bound} {moveFields w.entry.best} {w.nodes} {b01 w.running} {w.ply}"

def setupBoard (c : Case) : Option (Board × SpecNode) := do
  let b0 ← Board.fromFen? c.fen.toList
  let sp0 : SpecNode := { pos := Rules.parse c.fen.toList, hist := [] }
  c.moves.foldlM (fun (acc : Board × SpecNode) mv => do
    let (b, sn) := acc
    let (m?, _) := b.findMove mv
    let m ← m?
    let sm ← (Rules.legalMoves sn.pos).find? (fun x => specMoveName x == mv)
    pure (b.makeMove m, specGame.play sn sm)) (b0, sp0)

/-- token grammar of an info line: `info depth N [seldepth M] nodes K [time T] [nps X] [score (cp S | mate S)] pv m*` -/
def validInfoSyntax (line : String) : Bool :=
  let toks := (line.splitOn " ").filter (· ≠ "")
  let isNat (s : String) := s.toNat?.isSome
  let isInt (s : String) := s.toInt?.isSome
  let isMove (s : String) :=
    let cs := s.toList
    (cs.length == 4 || cs.length == 5) &&
    ('a' ≤ cs.getD 0 ' ' ∧ cs.getD 0 ' ' ≤ 'h') && ('1' ≤ cs.getD 1 ' ' ∧ cs.getD 1 ' ' ≤ '8') &&
    ('a' ≤ cs.getD 2 ' ' ∧ cs.getD 2 ' ' ≤ 'h') && ('1' ≤ cs.getD 3 ' ' ∧ cs.getD 3 ' ' ≤ '8') &&
    (cs.length == 4 || "qrbn".contains (cs.getD 4 ' '))
  match toks with
  | "info" :: "depth" :: d :: r =>
    isNat d &&
    (let r := match r with | "seldepth" :: s :: r' => if isNat s then r' else ["!"] | _ => r
     match r with
     | "nodes" :: n :: r =>
       isNat n &&
       (let r := match r with | "time" :: t :: r' => if isNat t then r' else ["!"] | _ => r
        let r := match r with | "nps" :: t :: r' => if isNat t then r' else ["!"] | _ => r
        let r := match r with
          | "score" :: "cp" :: v :: r' => if isInt v then r' else ["!"]
          | "score" :: "mate" :: v :: r' => if isInt v then r' else ["!"]
          | _ => ["!"]
        match r with
        | "pv" :: ms => !ms.isEmpty && ms.all isMove   -- a completed iteration of a root with a legal move has a first PV move
        | _ => false)
     | _ => false)
  | _ => false

/-- rules-spec mate oracle -/
def specMatesInOne (p : Rules.Pos) : List Rules.Move :=
  (Rules.legalMoves p).filter fun m => let q := Rules.apply p m; (Rules.legalMoves q).isEmpty && Rules.inCheck q q.turn

/-- after `m` every reply allows a mate in one (and there is a reply, or `m` itself mates) -/
def specKeepsMate (p : Rules.Pos) (m : Rules.Move) : Bool :=
  let q := Rules.apply p m
  let rs := Rules.legalMoves q
  if rs.isEmpty then Rules.inCheck q q.turn
  else rs.all fun r => !(specMatesInOne (Rules.apply q r)).isEmpty

def specAllowsMateInOne (p : Rules.Pos) (m : Rules.Move) : Bool := !(specMatesInOne (Rules.apply p m)).isEmpty

def finishCase (s : SSt) (rline : String) : SSt := Id.run do
  let some c := s.cur | return s
  let mut s := s
  let rt := rline.splitOn " "
  let kv (name : String) : String :=
    match rt.find? (fun x => x.startsWith (name ++ "=")) with
    | some x => (x.drop (name.length + 1)).toString | none => ""
  let some (board, sn) := setupBoard c
    | return s.report "model" "C09,C11,C13,C14,C16" "case-not-reproducible-in-model" ""
  let st := s.stats
  s := { s with stats := { st with cases := st.cases + 1, infoLines := st.infoLines + s.infos.size, writes := st.writes + s.wlines.size,
                                   nodesTotal := st.nodesTotal + (kv "nodes").toNat!,
                                   cacheOff := st.cacheOff + (if c.cache == "off" then 1 else 0),
                                   kept := st.kept + (if c.cache == "keep" then 1 else 0),
                                   withHistory := st.withHistory + (if c.moves.isEmpty then 0 else 1) } }
  s := { s with distinct := s.distinct.insert c.raw () }
  let implOut := "\n".intercalate (s.infos.toList.map canonInfo ++ s.bests.toList ++ s.wlines.toList ++ [rline])
  -- ---------- property-level checks on the implementation's output alone ----------
  let legalNames := (Rules.legalMoves sn.pos).map specMoveName
  if !(s.xlines.toList.filter fun x => !x.startsWith "K " && !x.startsWith "Q ").isEmpty then
    s := s.report "spec" "C09" "search-panicked" s!"x=[{(s.xlines.toList.filter fun x => !x.startsWith "K " && !x.startsWith "Q ")}]"
  match s.xlines.toList.find? (·.startsWith "K ") with
  | some k => s := s.report "spec" "C04,C02,C09" "search-left-the-position-key-changed" s!"[{k}]"
  | none => pure ()
  match s.xlines.toList.find? (·.startsWith "Q ") with
  | some q => s := s.report "spec" "C13" "cache-write-not-from-the-uninterrupted-search" s!"[{q}]"
  | none => pure ()
  if s.bests.size != 1 then
    s := s.report "spec" "C09" "bestmove-count" s!"count={s.bests.size}"
  else
    let bm := ((s.bests.getD 0 "").splitOn " ").getD 1 ""
    if !legalNames.isEmpty && !legalNames.contains bm then
      s := s.report "spec" "C09" "bestmove-not-legal" s!"bestmove={bm} legal=[{" ".intercalate legalNames}]"
  -- info lines: syntax, depths 1,2,3.. in order, PV legal, all depths when nothing limits the search
  let mut expectDepth := 1
  for line in s.infos do
    -- (a root without a legal move is outside C14 / C09: only the model comparison applies to it)
    if !legalNames.isEmpty && !validInfoSyntax line then s := s.report "spec" "C14" "info-syntax" s!"line=[{line}]"
    let toks := (line.splitOn " ").filter (· ≠ "")
    let d := (toks.getD 2 "0").toNat!
    if d != expectDepth then s := s.report "spec" "C14" "info-depth-order" s!"expected={expectDepth} line=[{line}]"
    expectDepth := expectDepth + 1
    let pv := (toks.dropWhile (· ≠ "pv")).drop 1
    let ok := (pv.foldl (fun (acc : Option Rules.Pos) mv => match acc with
      | none => none
      | some p => match (Rules.legalMoves p).find? (fun x => specMoveName x == mv) with
        | some m => some (Rules.apply p m) | none => none) (some sn.pos)).isSome
    if !ok then s := s.report "spec" "C14" "pv-not-legal" s!"line=[{line}]"
    if (toks.contains "mate") then s := { s with stats := { s.stats with mateScores := s.stats.mateScores + 1 } }
  let unlimited := c.nodes.isNone && c.stop == 0 && c.vdiv == 0
  if unlimited && !legalNames.isEmpty && s.infos.size != c.depth then
    s := s.report "spec" "C14" "depth-limit-not-completed" s!"depth={c.depth} reported={s.infos.size}"
  if unlimited then s := { s with stats := { s.stats with completed := s.stats.completed + 1 } }
  else s := { s with stats := { s.stats with aborted := s.stats.aborted + 1, clockCases := s.stats.clockCases + (if c.vdiv > 0 then 1 else 0) } }
  -- writes: nothing after an abort (budget exhausted or flag cleared)
  for w in s.wlines do
    let t := (w.drop 2).toString.splitOn " "
    let nodes := (t.getD 6 "0").toNat!
    let running := t.getD 7 "1"
    let over := match c.nodes with | some n => nodes ≥ n | none => false
    if running != "1" || over then
      s := s.report "spec" "C13" "cache-write-after-interruption" s!"write=[{w}]"
  -- … nor after the game clock's allowance has run out (virtual clock: the time the last consultation saw)
  for v in s.vlines do
    let t := (v.drop 2).toString.splitOn " "
    match (t.getD 0 "-").toNat?, (t.getD 1 "-").toNat? with
    | some vms, some timer =>
      if vms ≥ timer then s := s.report "spec" "C13" "cache-write-after-clock-expired" s!"virtual_ms={vms} timer={timer}"
      -- the allowance the engine gave itself must come out of the mover's own clock and increment
      let (own, inc) := if sn.pos.turn == .white then (c.wtime.getD 0, c.winc.getD 0) else (c.btime.getD 0, c.binc.getD 0)
      if timer > own + inc then s := s.report "spec" "C09" "allowance-exceeds-own-clock" s!"timer={timer} own_clock={own} own_increment={inc}"
    | _, _ => pure ()
  -- root score = plain negamax when the cache is neutralised and nothing limits the search
  if c.cache == "off" && unlimited && !legalNames.isEmpty then
    let implScore := (kv "score").toInt!
    let ref := refRootValue chessGame board c.depth
    s := { s with stats := { s.stats with negamaxChecks := s.stats.negamaxChecks + 1 } }
    if implScore != ref then
      s := s.report "spec" "C11" "root-score-vs-negamax" s!"impl={implScore} negamax={ref}"
    let bm := ((s.bests.getD 0 "").splitOn " ").getD 1 ""
    match (legalMovesOf chessGame board).find? (fun m => m.notation == bm) with
    | some m =>
      let v := refRootMoveValue chessGame board c.depth m
      if v != ref then s := s.report "spec" "C11" "chosen-move-value" s!"move={bm} value={v} negamax={ref}"
    | none => pure ()
    -- the same reference over the independent rules spec, while the budget lasts (it is slow)
    let men := (List.range 64).foldl (fun n sq => if (sn.pos.at sq).isSome then n + 1 else n) 0
    if c.depth ≤ 2 && men ≤ 14 && s.specBudget > 0 then
      let sref := specRootValue sn c.depth
      s := { s with specBudget := s.specBudget - 1, stats := { s.stats with specNegamaxChecks := s.stats.specNegamaxChecks + 1 } }
      if sref != implScore then
        s := s.report "spec" "C11" "root-score-vs-spec-negamax" s!"impl={implScore} spec-negamax={sref}"
  let mut pendingMate : Option String := none
  -- C12: after a completed iteration of depth >= 3 the chosen move must respect short forced mates
  if c.tag != "" && c.tag != "deep" && unlimited && c.depth ≥ 3 && c.moves.isEmpty then
    let bm := ((s.bests.getD 0 "").splitOn " ").getD 1 ""
    let legal := Rules.legalMoves sn.pos
    match legal.find? (fun x => specMoveName x == bm), legal.find? (fun x => specMoveName x == c.wit) with
    | some chosen, some wit =>
      if c.tag == "m1" then
        s := { s with stats := { s.stats with mateInOne := s.stats.mateInOne + 1 } }
        if !(specMatesInOne sn.pos).contains wit then s := s.report "model" "C12" "mined-witness-not-a-mate-in-one" s!"wit={c.wit}"
        else if !(specMatesInOne sn.pos).contains chosen then
          s := s.report "spec" "C12" "mate-in-one-not-played" s!"chosen={bm} mates=[{" ".intercalate ((specMatesInOne sn.pos).map specMoveName)}]"
      else if c.tag == "m2" then
        s := { s with stats := { s.stats with mateInTwo := s.stats.mateInTwo + 1 } }
        if !specKeepsMate sn.pos wit then s := s.report "model" "C12" "mined-witness-not-a-forced-mate" s!"wit={c.wit}"
        else if !specKeepsMate sn.pos chosen then
          -- not the shortest mate: does a forced mate remain at all?  "Keeps a forced mate" is about ANY length.  Two ways to
          -- know: (a) the search reported a mate score for the root — then, by `C12.mate_score_sound_partial` (no root move
          -- mates at once in an m2 case, the cache started empty or from earlier searches of this position, so it holds no
          -- score beyond ±32766) the opponent is forcibly mated after the chosen move, however long it takes; the
          -- implementation's score is the model's (compared below); (b) a bounded mate search over the model's game
          let rootScore := ((kv "score").toInt?).getD 0
          let bounded := match (legalMovesOf chessGame board).find? (fun m => m.notation == bm) with
            | some m => lostWithin chessGame 2 (board.makeMove m)
            | none => false
          if bounded then s := { s with stats := { s.stats with longerMateKept := s.stats.longerMateKept + 1 } }
          else if rootScore ≥ 32767 - 255 then
            -- (a) applies only if the implementation's search IS the model's on this case: decided after the comparison below
            pendingMate := some s!"chosen={bm} witness={c.wit} reported-score={rootScore}"
          else s := s.report "spec" "C12" "forced-mate-let-go" s!"chosen={bm} witness={c.wit}"
      else if c.tag == "av" then
        s := { s with stats := { s.stats with avoidable := s.stats.avoidable + 1 } }
        if specAllowsMateInOne sn.pos wit then s := s.report "model" "C12" "mined-witness-not-safe" s!"wit={c.wit}"
        else if specAllowsMateInOne sn.pos chosen then
          s := s.report "spec" "C12" "allowed-an-avoidable-mate-in-one" s!"chosen={bm} safe={c.wit}"
    | _, _ => s := s.report "model" "C12" "move-not-found-in-spec" s!"chosen={bm} wit={c.wit}"
  -- repeated runs of the same case from a fresh cache must be identical
  if c.raw == s.prevRaw && c.cache != "keep" then
    s := { s with stats := { s.stats with repeats := s.stats.repeats + 1 } }
    if implOut != s.prevOut then
      s := s.report "spec" "C16" "repeated-run-differs" s!"first=[{s.prevOut.take 300}] second=[{implOut.take 300}]"
  else if c.cache != "keep" then
    -- … also when other searches ran in between (the first run of every fresh case of this stream is remembered by a digest)
    match s.firstOut[c.raw]? with
    | some (h, head) =>
      s := { s with stats := { s.stats with repeats := s.stats.repeats + 1 } }
      if h != hash implOut then
        s := s.report "spec" "C16" "repeated-run-differs" s!"other searches ran in between; first=[{head}] later=[{implOut.take 300}]"
    | none => s := { s with firstOut := s.firstOut.insert c.raw (hash implOut, (implOut.take 300).toString) }
  s := { s with prevRaw := c.raw, prevOut := implOut }
  if c.tag == "deep" then
    -- large searches: only the implementation's repeated runs are compared (above); no model replay
    return s
  -- ---------- correspondence with the executable model ----------
  let nModel0 := s.nModel
  let tt0 : Table Ply := if c.cache == "keep" then s.tt else {}
  let lim : GoLimits := if c.vdiv > 0 then { nodes := c.nodes, wtime := c.wtime, btime := c.btime, winc := c.winc, binc := c.binc, movetime := c.movetime } else { nodes := c.nodes }
  -- the virtual clock advances once per `limits_exceeded`; with `movetime` the model reads the clock twice there (same virtual instant)
  let perCall := if c.movetime.isSome then 2 else 1
  let res := chessSearch board lim (some c.depth) (fun k => if c.vdiv > 0 then (k / perCall) / c.vdiv else 0) c.stop (c.cache == "off") tt0
  let mInfos := res.infos.map renderInfo
  let iInfos := s.infos.toList.map canonInfo
  if mInfos != iInfos then
    s := s.report "model" "C14,C16" "info-lines" s!"impl=[{" | ".intercalate iInfos}] model=[{" | ".intercalate mInfos}]"
  let mBest := match res.best with | some m => "bestmove " ++ m.notation | none => "bestmove 0000"
  if s.bests.toList != [mBest] then
    s := s.report "model" "C09,C16" "bestmove" s!"impl={s.bests.toList} model={mBest}"
  if res.st.bestMove.isNone then s := { s with stats := { s.stats with fallbackBest := s.stats.fallbackBest + 1 } }
  let mW := res.st.writes.reverse.map renderWrite
  if mW != s.wlines.toList.map (fun w => (w.drop 2).toString) then
    let iw := s.wlines.toList.map (fun w => (w.drop 2).toString)
    let firstDiff := ((List.range (max mW.length iw.length)).find? fun i => mW[i]? != iw[i]?).getD 0
    s := s.report "model" "C13,C12,C16" "cache-writes" s!"impl_count={iw.length} model_count={mW.length} first_diff_index={firstDiff} impl=[{iw.getD firstDiff "-"}] model=[{mW.getD firstDiff "-"}]"
  if res.st.writes.any (·.afterAbort) then
    s := s.report "model" "C13" "model-write-after-abort" ""
  let mR := s!"nodes={res.st.nodes} seldepth={res.st.seldepth} best={match res.st.bestMove with | some m => moveFields m | none => "-"} score={match res.st.bestScore with | some x => toString x | none => "-"} polls={res.st.polls} clockreads={if c.vdiv > 0 then toString ((res.st.clockReads + perCall - 1) / perCall) else "-"} ttsize={res.st.tt.size} ttsum={hex64 (ttSum res.st.tt)}"
  let iR := " ".intercalate (rt.filter fun x => !x.startsWith "root=")
  if mR != iR then
    s := s.report "model" "C16,C11,C12" "counters" s!"impl=[{iR}] model=[{mR}]"
  -- a longer forced mate accepted on the strength of the reported mate score: valid only if the search agreed with the model here
  match pendingMate with
  | some d =>
    if s.nModel > nModel0 then s := s.report "spec" "C12" "forced-mate-let-go" (d ++ " (the reported mate score is not the model's)")
    else s := { s with stats := { s.stats with longerMateKept := s.stats.longerMateKept + 1 } }
  | none => pure ()
  if s.samples.size < 3 then
    s := { s with samples := s.samples.push s!"{c.raw} -> {" | ".intercalate iInfos} | {s.bests.toList} | writes={s.wlines.size} | {rline}" }
  return { s with tt := res.st.tt }

def sstep (s : SSt) (line : String) : SSt :=
  let s := { s with lineNo := s.lineNo + 1 }
  if line.startsWith "S calibration" then { s with skipping := true, cur := none } else
  if line.startsWith "X calibration-end" then { s with skipping := false } else
  if s.skipping then s else
  if line.startsWith "S " then
    { s with cur := some (parseCase (line.drop 2).toString), infos := #[], bests := #[], wlines := #[], vlines := #[], xlines := #[] }
  else if line.startsWith "info " then { s with infos := s.infos.push line }
  else if line.startsWith "bestmove" then { s with bests := s.bests.push line }
  else if line.startsWith "W " then { s with wlines := s.wlines.push line }
  else if line.startsWith "V " then { s with vlines := s.vlines.push line }
  else if line.startsWith "X " then { s with xlines := s.xlines.push line }
  else if line.startsWith "K " then { s with xlines := s.xlines.push line }
  else if line.startsWith "Q " then { s with xlines := s.xlines.push line }
  else if line.startsWith "R " then finishCase s (line.drop 2).toString
  else if line.startsWith "D! " then
    -- the harness searched a position right after an unrelated search (cache cleared in between) and got another result
    s.report "spec" "C16" "fresh-search-depends-on-earlier-search" (line.drop 3).toString
  else if line.startsWith "D " then
    let n := match ((line.splitOn " ").find? (fun x => x.startsWith "pairs=")) with
      | some x => (x.drop 6).toString.toNat?.getD 0
      | none => 0
    { s with stats := { s.stats with chainPairs := s.stats.chainPairs + n } }
  else s

partial def sloop (h : IO.FS.Stream) (s : SSt) : IO SSt := do
  let line ← h.getLine
  if line.isEmpty then return s
  sloop h (sstep s line.trimAsciiEnd.toString)

def runSearch (specBudget : Nat) : IO UInt32 := do
  let s ← sloop (← IO.getStdin) { specBudget := specBudget }
  for r in s.reports do IO.println r
  let st := s.stats
  let samples := ",".intercalate (s.samples.toList.map fun x => "\"" ++ (x.replace "\"" "'") ++ "\"")
  IO.println ("SUMMARY {" ++ s!"\"lines\":{s.lineNo},\"cases\":{st.cases},\"distinct_cases\":{s.distinct.size},\"info_lines\":{st.infoLines},\"cache_writes\":{st.writes},\"nodes_total\":{st.nodesTotal},\"interrupted\":{st.aborted},\"clock_interrupted\":{st.clockCases},\"completed\":{st.completed},\"cache_off\":{st.cacheOff},\"cache_kept\":{st.kept},\"with_history\":{st.withHistory},\"negamax_checks\":{st.negamaxChecks},\"spec_negamax_checks\":{st.specNegamaxChecks},\"repeated_runs\":{st.repeats},\"fallback_bestmove\":{st.fallbackBest},\"mate_scores\":{st.mateScores},\"mate_in_one_cases\":{st.mateInOne},\"mate_in_two_cases\":{st.mateInTwo},\"avoidable_threat_cases\":{st.avoidable},\"longer_mate_kept\":{st.longerMateKept},\"chain_pairs\":{st.chainPairs},\"model_mismatches\":{s.nModel},\"spec_mismatches\":{s.nSpec},\"samples\":[{samples}]" ++ "}")
  return (if s.nModel + s.nSpec == 0 then 0 else 1)

end RCE.Driver
