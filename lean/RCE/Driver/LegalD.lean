import RCE.Driver.Codec
/-! `legal` mode: lines `Q <fen> | <moves> | <move>`; answers whether `<move>` is legal (rules spec) in the
    position reached from `<fen>` by `<moves>`, for the process-level checks. -/
namespace RCE.Driver
open RCE RCE.Codec

partial def lloop (h : IO.FS.Stream) (n bad : Nat) : IO (Nat × Nat) := do
  let line ← h.getLine
  if line.isEmpty then return (n, bad)
  let l := line.trimAsciiEnd.toString
  if !l.startsWith "Q " then lloop h n bad else
  match (l.drop 2).toString.splitOn " | " with
  | [fen, moves, mv] =>
    let p0 := Rules.parse fen.toList
    let ms := if moves.trimAscii.toString.isEmpty then [] else (moves.splitOn " ").filter (· ≠ "")
    let p := ms.foldl (fun (acc : Option Rules.Pos) m => match acc with
      | none => none
      | some p => match (Rules.legalMoves p).find? (fun x => specMoveName x == m) with
        | some x => some (Rules.apply p x) | none => none) (some p0)
    match p with
    | none => IO.println s!"MISMATCH class=spec props=C09,C10 kind=history-not-legal line={n} {l}"; lloop h (n + 1) (bad + 1)
    | some p =>
      let names := (Rules.legalMoves p).map specMoveName
      if names.contains mv then lloop h (n + 1) bad
      else
        IO.println s!"MISMATCH class=spec props=C09,C10 kind=bestmove-not-legal line={n} move={mv} legal=[{" ".intercalate names}] {l}"
        lloop h (n + 1) (bad + 1)
  | _ => lloop h n bad

def runLegal : IO UInt32 := do
  let (n, bad) ← lloop (← IO.getStdin) 0 0
  IO.println ("SUMMARY {" ++ s!"\"queries\":{n},\"spec_mismatches\":{bad},\"model_mismatches\":0" ++ "}")
  return (if bad == 0 then 0 else 1)

end RCE.Driver
