import RCE.Driver.Codec
/-! `perft` mode: the rules spec against published perft numbers (labelled tests of the SPEC, not proofs). -/
namespace RCE.Driver
open RCE

def perftTable : List (String × Nat × Nat) := [
  ("rnbqkbnr/pppppppp/8/8/8/8/PPPPPPPP/RNBQKBNR w KQkq - 0 1", 1, 20),
  ("rnbqkbnr/pppppppp/8/8/8/8/PPPPPPPP/RNBQKBNR w KQkq - 0 1", 2, 400),
  ("rnbqkbnr/pppppppp/8/8/8/8/PPPPPPPP/RNBQKBNR w KQkq - 0 1", 3, 8902),
  ("rnbqkbnr/pppppppp/8/8/8/8/PPPPPPPP/RNBQKBNR w KQkq - 0 1", 4, 197281),
  ("r3k2r/p1ppqpb1/bn2pnp1/3PN3/1p2P3/2N2Q1p/PPPBBPPP/R3K2R w KQkq - 0 1", 1, 48),
  ("r3k2r/p1ppqpb1/bn2pnp1/3PN3/1p2P3/2N2Q1p/PPPBBPPP/R3K2R w KQkq - 0 1", 2, 2039),
  ("r3k2r/p1ppqpb1/bn2pnp1/3PN3/1p2P3/2N2Q1p/PPPBBPPP/R3K2R w KQkq - 0 1", 3, 97862),
  ("8/2p5/3p4/KP5r/1R3p1k/8/4P1P1/8 w - - 0 1", 1, 14),
  ("8/2p5/3p4/KP5r/1R3p1k/8/4P1P1/8 w - - 0 1", 2, 191),
  ("8/2p5/3p4/KP5r/1R3p1k/8/4P1P1/8 w - - 0 1", 3, 2812),
  ("8/2p5/3p4/KP5r/1R3p1k/8/4P1P1/8 w - - 0 1", 4, 43238),
  ("r3k2r/Pppp1ppp/1b3nbN/nP6/BBP1P3/q4N2/Pp1P2PP/R2Q1RK1 w kq - 0 1", 1, 6),
  ("r3k2r/Pppp1ppp/1b3nbN/nP6/BBP1P3/q4N2/Pp1P2PP/R2Q1RK1 w kq - 0 1", 2, 264),
  ("r3k2r/Pppp1ppp/1b3nbN/nP6/BBP1P3/q4N2/Pp1P2PP/R2Q1RK1 w kq - 0 1", 3, 9467),
  ("rnbq1k1r/pp1Pbppp/2p5/8/2B5/8/PPP1NnPP/RNBQK2R w KQ - 1 8", 1, 44),
  ("rnbq1k1r/pp1Pbppp/2p5/8/2B5/8/PPP1NnPP/RNBQK2R w KQ - 1 8", 2, 1486),
  ("rnbq1k1r/pp1Pbppp/2p5/8/2B5/8/PPP1NnPP/RNBQK2R w KQ - 1 8", 3, 62379),
  ("r4rk1/1pp1qppp/p1np1n2/2b1p1B1/2B1P1b1/P1NP1N2/1PP1QPPP/R4RK1 w - - 0 10", 1, 46),
  ("r4rk1/1pp1qppp/p1np1n2/2b1p1B1/2B1P1b1/P1NP1N2/1PP1QPPP/R4RK1 w - - 0 10", 2, 2079),
  ("r4rk1/1pp1qppp/p1np1n2/2b1p1B1/2B1P1b1/P1NP1N2/1PP1QPPP/R4RK1 w - - 0 10", 3, 89890)]

def runPerft : IO UInt32 := do
  let mut bad := 0
  let mut nodes := 0
  for (fen, d, expected) in perftTable do
    let got := Rules.perft (Rules.parse fen.toList) d
    nodes := nodes + got
    if got != expected then
      bad := bad + 1
      IO.println s!"MISMATCH class=spec props=C01 kind=spec-perft fen=[{fen}] depth={d} spec={got} published={expected}"
  IO.println ("SUMMARY {" ++ s!"\"perft_entries\":{perftTable.length},\"perft_nodes\":{nodes},\"spec_mismatches\":{bad},\"model_mismatches\":0" ++ "}")
  return (if bad == 0 then 0 else 1)

end RCE.Driver
