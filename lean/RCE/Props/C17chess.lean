import RCE.Props.C17
import RCE.Proofs.EvalBound
import RCE.Proofs.BoardKey
/-! # C17 for the positions of chess games — the side condition discharged

`eval_swap` needs `MaterialBounded` (each side's material ≤ 32767 cp), and `saturation_breaks_antisymmetry` shows that
it cannot be dropped for arbitrary bitboards.  For the positions a game can reach it always holds: no generated move
increases a side's promote-everything potential, which bounds its material; so from any well-formed position within the
bound — the start position in particular (10,300 a side) — every position reachable by generated moves (a superset of
the legal games) has an antisymmetric and in-range evaluation. -/
namespace RCE.Props.C17
open RCE RCE.Search RCE.Proofs.EvalSym RCE.Proofs.EvalBound RCE.Proofs.BoardWF RCE.Proofs.SearchDefs

/-- every position reachable (by generated moves) from a well-formed position within the potential bound is `MaterialBounded` -/
theorem reachable_material_bounded (b q : Board) (hw : WF b) (hp : PotentialBounded b) (hr : Reach chessGame b q) :
    MaterialBounded q := by
  obtain ⟨-, p1, p2⟩ := reach_inv b hw q hr
  have m1 := material_le_potential q .white
  have m2 := material_le_potential q .black
  have h1 := hp.1
  have h2 := hp.2
  exact ⟨by omega, by omega⟩

/-- … hence its evaluation with the other side to move is the negation, and it is in range -/
theorem eval_swap_reachable (b q : Board) (hw : WF b) (hp : PotentialBounded b) (hr : Reach chessGame b q) :
    (swapTurn q).evaluate = - q.evaluate ∧ -32767 ≤ q.evaluate ∧ q.evaluate ≤ 32767 :=
  have hb := reachable_material_bounded b q hw hp hr
  ⟨eval_swap q hb, eval_range q hb⟩

/-- in particular every position of every game from the start position -/
theorem eval_swap_in_every_game (q : Board) (hr : Reach chessGame Board.start q) :
    (swapTurn q).evaluate = - q.evaluate ∧ (mirrorBoard q).evaluate = q.evaluate :=
  ⟨(eval_swap_reachable Board.start q RCE.Proofs.BoardKey.start_ok'.2 (by decide +kernel) hr).1, eval_mirror q⟩

end RCE.Props.C17

#print axioms RCE.Props.C17.reachable_material_bounded
#print axioms RCE.Props.C17.eval_swap_reachable
#print axioms RCE.Props.C17.eval_swap_in_every_game
