import RCE.Proofs.BoardKey
/-! # C04 — the position key is a function of the position, however it was reached

`scratchKey` is the from-scratch key (`impl From<&Board> for ZKey`); `zkey` is the incrementally
maintained field.  All statements are for **every** well-formed board and **every** generated move;
the induction over arbitrary make / unmake sequences is `key_ok_run`. -/
namespace RCE.Props.C04
open RCE RCE.Proofs.BoardWF RCE.Proofs.BoardKey

/-- making any generated move keeps "incremental key = from-scratch key" (and well-formedness) -/
theorem key_incremental (b : Board) (m : Ply) (hw : WF b) (hk : b.zkey = b.scratchKey) (hm : m ∈ b.allMoves) :
    (b.makeMove m).zkey = (b.makeMove m).scratchKey ∧ WF (b.makeMove m) :=
  key_incremental' b m hw hk hm

/-- the from-scratch key reads nothing but placement, castling rights, en-passant file and side to move:
    two boards that agree on those have the same key, whatever their histories, clocks, counters -/
theorem scratchKey_position_only (b b' : Board)
    (hp : ∀ i, i < 64 → b.pieceAt (Square.ofIdx i) = b'.pieceAt (Square.ofIdx i))
    (hr : b.rights = b'.rights) (he : b.ep = b'.ep) (ht : b.turn = b'.turn) :
    b.scratchKey = b'.scratchKey :=
  scratchKey_congr b b' hp hr he ht

/-- hence two games arriving at the same position have the same *incremental* key -/
theorem transposition_same_key (b b' : Board) (hk : b.zkey = b.scratchKey) (hk' : b'.zkey = b'.scratchKey)
    (hp : ∀ i, i < 64 → b.pieceAt (Square.ofIdx i) = b'.pieceAt (Square.ofIdx i))
    (hr : b.rights = b'.rights) (he : b.ep = b'.ep) (ht : b.turn = b'.turn) :
    b.zkey = b'.zkey := by
  rw [hk, hk']; exact scratchKey_congr b b' hp hr he ht

/-- a position loaded from FEN carries its from-scratch key -/
theorem fromFen_key (s : List Char) (b : Board) (h : Board.fromFen? s = some b) : b.zkey = b.scratchKey :=
  fromFen_key' s b h

/-- the start position carries its from-scratch key and is well-formed (non-vacuity of the hypotheses) -/
theorem start_ok : Board.start.zkey = Board.start.scratchKey ∧ WF Board.start := start_ok'

/- `Op` (an operation of a game with take-backs: `make m` | `unmake`) and `run` (run a sequence of
   operations; a `make` must name a generated move, an `unmake` needs a move to take back; the `Nat` counts
   the moves made since the start of the run) are defined in `RCE.Proofs.BoardKey`, unchanged, so that
   the proof can refer to them; they are in scope here through `open RCE.Proofs.BoardKey`. -/

/-- after every make and every unmake of any interleaving, incremental = from-scratch -/
theorem key_ok_run (b : Board) (ops : List Op) (b' : Board) (d : Nat) (hw : WF b) (hk : b.zkey = b.scratchKey)
    (h : run b 0 ops = some (b', d)) : b'.zkey = b'.scratchKey :=
  key_ok_run' b ops b' d hw hk h

end RCE.Props.C04

#print axioms RCE.Props.C04.key_incremental
#print axioms RCE.Props.C04.scratchKey_position_only
#print axioms RCE.Props.C04.transposition_same_key
#print axioms RCE.Props.C04.fromFen_key
#print axioms RCE.Props.C04.start_ok
#print axioms RCE.Props.C04.key_ok_run
