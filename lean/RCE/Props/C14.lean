import RCE.Proofs.SearchInfo
import RCE.Proofs.SearchPvNonempty
import RCE.Proofs.SearchInfoScore
/-! # C14 — search progress reports are truthful and well-formed

`Result.infos` are the `info` lines in the order printed (time / nps tokens are not modelled: they
depend on the clock). -/
namespace RCE.Props.C14
open RCE.Search RCE.Proofs.SearchDefs RCE.Proofs.SearchInfo

variable {P M : Type} [DecidableEq M]

/-- the reported depths are 1, 2, …, k without gaps or repeats, for every limit / clock / stop point -/
theorem info_depths (env : Env) (G : Game P M) (p : P) (maxDepth : Option Nat) (tt0 : Table M) :
    ∃ k, k ≤ maxDepth.getD 255 ∧ (search env G p maxDepth tt0).infos.map (·.depth) = List.range' 1 k :=
  info_depths' env G p maxDepth tt0

/-- a search limited to depth N and nothing else reports every depth 1..N -/
theorem depth_limit_complete (env : Env) (G : Game P M) (p : P) (n : Nat) (tt0 : Table M)
    (hu : Unlimited env) (hn : n ≤ 255) :
    (search env G p (some n) tt0).infos.map (·.depth) = List.range' 1 n :=
  depth_limit_complete' env G p n tt0 hu hn

/-- every principal variation is a sequence of legal moves from the searched position, provided the key
    identifies positions and the initial cache holds generated moves -/
theorem pv_legal (env : Env) (G : Game P M) (p : P) (maxDepth : Option Nat) (tt0 : Table M)
    (hk : KeyMoves G) (ht : TableMovesOK G tt0) :
    ∀ i ∈ (search env G p maxDepth tt0).infos, LegalLine G p i.pv :=
  pv_legal' env G p maxDepth tt0 hk ht

/-- every info line reported for a root that has a legal move carries a principal variation with at least one
    move, and that first move is a legal move of the root — for every limit, stop point and monotone clock, whatever
    the initial cache holds (no hypothesis about keys: the root's own entry was written by this very iteration) -/
theorem pv_nonempty (env : Env) (G : Game P M) (p : P) (maxDepth : Option Nat) (tt0 : Table M)
    (hc : MonoClock env) (hl : legalMovesOf G p ≠ []) (he : EvalBoundedFrom G p) (ht : TableScoresOK tt0) :
    ∀ i ∈ (search env G p maxDepth tt0).infos, ∃ m rest, i.pv = m :: rest ∧ m ∈ legalMovesOf G p :=
  RCE.Proofs.SearchPvNonempty.pv_nonempty' env G p maxDepth tt0 hc hl he ht

/-- every info line reported for a root that has a legal move carries a score — centipawns strictly between the mate
    bands, or a non-zero number of moves to mate whose size is ⌈pv length / 2⌉ — never the empty score -/
theorem info_score_present (env : Env) (G : Game P M) (p : P) (maxDepth : Option Nat) (tt0 : Table M)
    (hc : MonoClock env) (hl : legalMovesOf G p ≠ []) (he : EvalBoundedFrom G p) (ht : TableScoresOK tt0) :
    ∀ i ∈ (search env G p maxDepth tt0).infos,
      (∃ s, i.score = .cp s ∧ MINS + 255 + 1 < s ∧ s < MAXS - 255) ∨
      (∃ n : Int, i.score = .mate n ∧ n ≠ 0 ∧ n.natAbs = (i.pv.length + 1) / 2 ∧ 1 ≤ n.natAbs ∧
        (n = -(((i.pv.length + 1) / 2 : Nat) : Int) ∨ n = (((i.pv.length + 1) / 2 : Nat) : Int))) :=
  RCE.Proofs.SearchInfoScore.info_score_present env G p maxDepth tt0 hc hl he ht

end RCE.Props.C14

#print axioms RCE.Props.C14.info_depths
#print axioms RCE.Props.C14.depth_limit_complete
#print axioms RCE.Props.C14.pv_legal
#print axioms RCE.Props.C14.pv_nonempty
#print axioms RCE.Props.C14.info_score_present
