import RCE.Props.C07
import RCE.Props.C01
import RCE.Proofs.FenLegal
/-! # C07, continued — a FEN of a legal-game position loads to a legal-game position

`C07.fen_roundtrip` / `fromFen_wf` give a well-formed board standing for the described position; with both
kings on the board and the side not to move not in check the loaded board is a `Legal` position, which is
the hypothesis of C01 / C02 / C03 / C04 — so those theorems apply to positions set up by FEN, not only to
positions reached by play from the start position. -/
namespace RCE.Props.C07
open RCE RCE.Proofs.BoardWF RCE.Proofs.Abs RCE.Proofs.FenRoundtrip

/-- each side has exactly one king in the rules position -/
def SpecKings (p : Rules.Pos) : Prop :=
  (∃ s, s < 64 ∧ p.at s = some ⟨.white, .king⟩) ∧ (∃ s, s < 64 ∧ p.at s = some ⟨.black, .king⟩) ∧
  (∀ s t c, s < 64 → t < 64 → p.at s = some ⟨c, .king⟩ → p.at t = some ⟨c, .king⟩ → s = t)

/-- a position given as FEN — valid, consistent, both kings on the board, the side that is not to move not in check —
    loads to a legal-game position standing for exactly that position; so C01 / C02 / C03 / C04 apply from then on -/
theorem fromFen_legal (p : Rules.Pos) (hv : ValidPos p) (hc : ConsistentPos p) (hk : SpecKings p)
    (hs : Rules.inCheck p p.turn.opp = false) :
    ∃ b, Board.fromFen? (Rules.render p) = some b ∧ abs b = p ∧ Legal b := by
  obtain ⟨b, hb, ha⟩ := fen_roundtrip p hv
  have hw : WF b := (fromFen_wf p hv hc b hb).1
  have hkp : KingsPresent b := RCE.Proofs.FenLegal.kingsPresent_of_spec b (by rw [ha]; exact hk)
  refine ⟨b, hb, ha, hw, hkp, ?_⟩
  rw [C01.inCheck_exact b hw hkp, RCE.Proofs.MoveGen.absColor_opp]
  have ht : absColor b.turn = p.turn := by rw [← ha]; rfl
  rw [ha, ht]; exact hs

/-- in particular the engine's legal moves in the loaded position are exactly the rules' legal moves of the described position -/
theorem fromFen_legal_moves_exact (p : Rules.Pos) (hv : ValidPos p) (hc : ConsistentPos p) (hk : SpecKings p)
    (hs : Rules.inCheck p p.turn.opp = false) :
    ∃ b, Board.fromFen? (Rules.render p) = some b ∧ ((b.legalMoves).1.map absMove).Perm (Rules.legalMoves p) := by
  obtain ⟨b, hb, ha, hl⟩ := fromFen_legal p hv hc hk hs
  refine ⟨b, hb, ?_⟩
  have := (C01.legal_exact b hl).1
  rw [ha] at this; exact this

end RCE.Props.C07

#print axioms RCE.Props.C07.fromFen_legal
#print axioms RCE.Props.C07.fromFen_legal_moves_exact
