import RCE.Props.C12chess
/-! # C12, the chess instance end to end — second and third completeness clauses under the rules of chess

`C12chess.lean` carries the first completeness clause (a mate in one is played) to the rules spec.  This file does the
same for the other two: an avoidable mate in one is avoided (`chess_avoidable_mate_by_the_rules`) and a mate in two is
kept (`chess_mate_in_two_by_the_rules`).  The case distinctions of the abstract theorems (`NoMateInOne`, `Safe`,
`AllowsMateInOne`, `MateInTwoBy`, `Lost`) are read over `Rules.legalMoves` / `Rules.apply` / `Rules.isCheckmate`
through C01 (`legal_exact`, `mate_stalemate_exact`) and C03 (`make_refines`, `make_legal`); the key / draw hypotheses
(`KeyMate`, `PlyKeys`, `MatedKeysFresh2`, `NoDrawAtMate2`, `LineKeys`, `NoDrawBelow3`) stay explicit hypotheses about
`chessGame`. -/
namespace RCE.Props.C12
open RCE RCE.Search RCE.Proofs.SearchDefs RCE.Proofs.SearchMate RCE.Proofs.SearchMateOne RCE.Proofs.Abs RCE.Proofs.BoardWF
open RCE.Proofs.SearchMateAvoid (AllowsMateInOne Safe PlyKeys MatedKeysFresh2 NoDrawAtMate2 AvoidInv)
open RCE.Proofs.SearchMateTwo (MateInTwoBy LineKeys NoDrawBelow3 MateTwoInv)

/-! ## moving between the model and the rules spec -/

/-- every legal move of the model is, as (from, to, promotion), legal under the rules of chess -/
theorem chess_model_move_is_spec_move (b : Board) (hl : Legal b) (m : Ply) (hm : m ∈ b.legalMovesPure) :
    absMove m ∈ Rules.legalMoves (abs b) := by
  have hpure := (RCE.Proofs.BoardUndo.legalMoves_pure' b hl.wf).2
  have hexact := (C01.legal_exact b hl).1
  apply hexact.mem_iff.mp
  rw [hpure]; exact List.mem_map_of_mem hm

/-- the board after a legal move is a legal-game position standing for the rules' successor position -/
theorem chess_child (b : Board) (hl : Legal b) (m : Ply) (hm : m ∈ b.legalMovesPure) :
    Legal (b.makeMove m) ∧ abs (b.makeMove m) = Rules.apply (abs b) (absMove m) :=
  ⟨C03.make_legal b m hl hm, C03.make_refines b m hl (C03.legal_is_generated b m hm)⟩

/-- the model has a legal move exactly when the rules give one -/
theorem chess_has_move_iff (b : Board) (hl : Legal b) :
    legalMovesOf chessGame b ≠ [] ↔ Rules.legalMoves (abs b) ≠ [] := by
  rw [C09.chess_legalMovesOf]
  constructor
  · intro h
    obtain ⟨m, hm⟩ := List.exists_mem_of_ne_nil _ h
    exact List.ne_nil_of_mem (chess_model_move_is_spec_move b hl m hm)
  · intro h
    obtain ⟨mv, hmv⟩ := List.exists_mem_of_ne_nil _ h
    obtain ⟨m, hm, _⟩ := chess_spec_move_has_model_move b hl mv hmv
    exact List.ne_nil_of_mem hm

/-- the side to move has a mate in one in the model exactly when the rules give one -/
theorem chess_hasMateInOne_iff (c : Board) (hl : Legal c) :
    (∃ r, Mates chessGame c r) ↔
    ∃ mv ∈ Rules.legalMoves (abs c), Rules.isCheckmate (Rules.apply (abs c) mv) = true := by
  constructor
  · rintro ⟨r, hr⟩
    have hmem : r ∈ c.legalMovesPure := by
      have := hr.1
      rw [C09.chess_legalMovesOf] at this; exact this
    exact ⟨absMove r, chess_model_move_is_spec_move c hl r hmem, (chess_mates_iff c hl r hmem).mp hr⟩
  · rintro ⟨mv, hmv, hmate⟩
    obtain ⟨m, hm, he⟩ := chess_spec_move_has_model_move c hl mv hmv
    exact ⟨m, (chess_mates_iff c hl m hm).mpr (by rw [he]; exact hmate)⟩

/-! ## 1. the hypotheses of the abstract theorems, read under the rules -/

/-- `NoMateInOne`: no move that is legal under the rules of chess gives checkmate -/
theorem chess_noMateInOne_iff (b : Board) (hl : Legal b) :
    NoMateInOne chessGame b ↔
    ∀ mv ∈ Rules.legalMoves (abs b), Rules.isCheckmate (Rules.apply (abs b) mv) = false := by
  constructor
  · intro hno mv hmv
    obtain ⟨m, hm, he⟩ := chess_spec_move_has_model_move b hl mv hmv
    cases hcm : Rules.isCheckmate (Rules.apply (abs b) mv) with
    | false => rfl
    | true =>
      have hmates : Mates chessGame b m := (chess_mates_iff b hl m hm).mpr (by rw [he]; exact hcm)
      exact absurd hmates.2 (hno m hmates.1)
  · intro h m hm hmated
    have hmem : m ∈ b.legalMovesPure := by
      rw [C09.chess_legalMovesOf] at hm; exact hm
    have h1 := (chess_mates_iff b hl m hmem).mp ⟨hm, hmated⟩
    rw [h (absMove m) (chess_model_move_is_spec_move b hl m hmem)] at h1
    exact Bool.false_ne_true h1

/-- under the rules: after `mv` the opponent has a legal move that gives checkmate -/
def SpecAllowsMateInOne (p : Rules.Pos) (mv : Rules.Move) : Prop :=
  ∃ r ∈ Rules.legalMoves (Rules.apply p mv), Rules.isCheckmate (Rules.apply (Rules.apply p mv) r) = true

/-- `AllowsMateInOne`: after the move the rules give the opponent a move that checkmates -/
theorem chess_allowsMateInOne_iff (b : Board) (hl : Legal b) (m : Ply) (hm : m ∈ b.legalMovesPure) :
    AllowsMateInOne chessGame b m ↔
    ∃ r ∈ Rules.legalMoves (Rules.apply (abs b) (absMove m)),
      Rules.isCheckmate (Rules.apply (Rules.apply (abs b) (absMove m)) r) = true := by
  obtain ⟨hl', habs⟩ := chess_child b hl m hm
  have h := chess_hasMateInOne_iff (b.makeMove m) hl'
  rw [habs] at h
  exact h

/-- the same with the spec-level definition -/
theorem chess_allowsMateInOne_iff' (b : Board) (hl : Legal b) (m : Ply) (hm : m ∈ b.legalMovesPure) :
    AllowsMateInOne chessGame b m ↔ SpecAllowsMateInOne (abs b) (absMove m) :=
  chess_allowsMateInOne_iff b hl m hm

/-- `Safe`: legal under the rules and not allowing a mate in one under the rules -/
theorem chess_safe_iff (b : Board) (hl : Legal b) (m : Ply) (hm : m ∈ b.legalMovesPure) :
    Safe chessGame b m ↔ ¬ SpecAllowsMateInOne (abs b) (absMove m) := by
  unfold Safe
  rw [chess_allowsMateInOne_iff' b hl m hm]
  constructor
  · intro h; exact h.2
  · intro h; exact ⟨by rw [C09.chess_legalMovesOf]; exact hm, h⟩

/-- under the rules: `mv` is the key move of a mate in two — it is legal, the opponent has a legal reply, and after every
    legal reply there is a legal move that gives checkmate -/
def SpecMateInTwoBy (p : Rules.Pos) (mv : Rules.Move) : Prop :=
  mv ∈ Rules.legalMoves p ∧ Rules.legalMoves (Rules.apply p mv) ≠ [] ∧
  ∀ r ∈ Rules.legalMoves (Rules.apply p mv),
    ∃ x ∈ Rules.legalMoves (Rules.apply (Rules.apply p mv) r),
      Rules.isCheckmate (Rules.apply (Rules.apply (Rules.apply p mv) r) x) = true

/-- `MateInTwoBy` is the rules' mate in two -/
theorem chess_mateInTwoBy_iff (b : Board) (hl : Legal b) (m : Ply) (hm : m ∈ b.legalMovesPure) :
    MateInTwoBy chessGame b m ↔ SpecMateInTwoBy (abs b) (absMove m) := by
  obtain ⟨hl', habs⟩ := chess_child b hl m hm
  have hplay : chessGame.play b m = b.makeMove m := rfl
  unfold MateInTwoBy SpecMateInTwoBy
  rw [hplay, chess_has_move_iff (b.makeMove m) hl', habs]
  constructor
  · rintro ⟨_, h2, h3⟩
    refine ⟨chess_model_move_is_spec_move b hl m hm, h2, ?_⟩
    intro r hr
    rw [← habs] at hr
    obtain ⟨r', hr', he⟩ := chess_spec_move_has_model_move (b.makeMove m) hl' r hr
    obtain ⟨hl'', habs'⟩ := chess_child (b.makeMove m) hl' r' hr'
    have h := (chess_hasMateInOne_iff ((b.makeMove m).makeMove r') hl'').mp
      (h3 r' (by rw [C09.chess_legalMovesOf]; exact hr'))
    rw [habs', habs, he] at h
    exact h
  · rintro ⟨_, h2, h3⟩
    refine ⟨by rw [C09.chess_legalMovesOf]; exact hm, h2, ?_⟩
    intro r hr
    have hr' : r ∈ (b.makeMove m).legalMovesPure := by
      rw [C09.chess_legalMovesOf] at hr; exact hr
    obtain ⟨hl'', habs'⟩ := chess_child (b.makeMove m) hl' r hr'
    have hspec := chess_model_move_is_spec_move (b.makeMove m) hl' r hr'
    rw [habs] at hspec
    have h := h3 (absMove r) hspec
    have hplay' : chessGame.play (b.makeMove m) r = (b.makeMove m).makeMove r := rfl
    rw [hplay']
    apply (chess_hasMateInOne_iff ((b.makeMove m).makeMove r) hl'').mpr
    rw [habs', habs]
    exact h

/-- a key move of a mate in two under the rules is the image of a key move of the model -/
theorem chess_spec_mateInTwo_has_model_move (b : Board) (hl : Legal b) (mv : Rules.Move)
    (h : SpecMateInTwoBy (abs b) mv) : ∃ m, MateInTwoBy chessGame b m ∧ absMove m = mv := by
  obtain ⟨m, hm, he⟩ := chess_spec_move_has_model_move b hl mv h.1
  exact ⟨m, (chess_mateInTwoBy_iff b hl m hm).mpr (by rw [he]; exact h), he⟩

/-! ## the answered move -/

/-- the move left in the search state is the one answered on the `bestmove` line -/
theorem best_of_bestMove {P M : Type} [DecidableEq M] (env : Env) (G : Game P M) (p : P) (maxDepth : Option Nat)
    (tt0 : Table M) (m : M) (h : (search env G p maxDepth tt0).st.bestMove = some m) :
    (search env G p maxDepth tt0).best = some m := by
  have h1 : (iterate env G p (maxDepth.getD 255) (maxDepth.getD 255) 1 ({ tt := tt0 } : St M) []).1.bestMove = some m := h
  show (match (iterate env G p (maxDepth.getD 255) (maxDepth.getD 255) 1 ({ tt := tt0 } : St M) []).1.bestMove with
    | some m => some m
    | none => ((G.allMoves p).filter (G.legal p)).head?) = some m
  rw [h1]

/-! ## 2. an avoidable mate in one is avoided, under the rules of chess -/

open RCE.Proofs.EvalBound in
/-- in a legal-game position (material within the bound) in which, under the rules of chess, no legal move checkmates at
    once and some legal move does not allow a mate in one: every `go` that completes a 2-ply iteration — under every
    limit, stop point and monotone clock, cache on, from any cache satisfying the invariant — answers with a move that
    is legal under the rules of chess and does not allow a mate in one under the rules of chess (key / draw hypotheses
    as in `avoidable_mate_avoided_partial`) -/
theorem chess_avoidable_mate_by_the_rules (b : Board) (hl : Legal b) (hp : PotentialBounded b) (g : GoLimits)
    (maxDepth : Option Nat) (clock : Nat → Nat) (hc : ∀ i j, i ≤ j → clock i ≤ clock j) (stopAtPoll : Nat)
    (tt0 : Search.Table Ply)
    (hk : KeyMate chessGame) (hP : PlyKeys chessGame b) (hK : MatedKeysFresh2 chessGame b)
    (hD : NoDrawAtMate2 chessGame b) (hinv : AvoidInv chessGame b tt0)
    (hno : ∀ mv ∈ Rules.legalMoves (abs b), Rules.isCheckmate (Rules.apply (abs b) mv) = false)
    (hsafe : ∃ s ∈ Rules.legalMoves (abs b), ¬ SpecAllowsMateInOne (abs b) s)
    (hdone : ∃ i ∈ (chessSearch b g maxDepth clock stopAtPoll false tt0).infos, i.depth ≥ 2) :
    ∃ m, (chessSearch b g maxDepth clock stopAtPoll false tt0).best = some m ∧
         absMove m ∈ Rules.legalMoves (abs b) ∧
         ¬ SpecAllowsMateInOne (abs b) (absMove m) := by
  obtain ⟨s, hs, hsafe⟩ := hsafe
  obtain ⟨s0, hs0, he0⟩ := chess_spec_move_has_model_move b hl s hs
  have hsafe' : ∃ s, Safe chessGame b s :=
    ⟨s0, (chess_safe_iff b hl s0 hs0).mpr (by rw [he0]; exact hsafe)⟩
  obtain ⟨m, hb, hm⟩ := RCE.Proofs.SearchMateAvoid.avoidable_mate_answered
    { limits := g.toLimits b.turn, clock := clock, stopAtPoll := stopAtPoll, cacheOff := false } chessGame b maxDepth tt0
    hc rfl (C09.chess_eval_bounded b hl.wf hp) hk hP hK hD ((chess_noMateInOne_iff b hl).mpr hno) hsafe' hinv hdone
  have hmem : m ∈ b.legalMovesPure := by
    have := hm.1
    rw [C09.chess_legalMovesOf] at this; exact this
  exact ⟨m, hb, chess_model_move_is_spec_move b hl m hmem, (chess_safe_iff b hl m hmem).mp hm⟩

/-! ## 3. a mate in two is kept, under the rules of chess -/

theorem tableScoresOK_of_strict {M : Type} {tt : Table M} (h : StrictScores tt) : TableScoresOK tt := by
  intro k e he
  have := h k e he
  simp only [MINS, MAXS]
  omega

open RCE.Proofs.EvalBound in
/-- in a legal-game position (material within the bound) in which, under the rules of chess, no legal move checkmates at
    once and some legal move is the key move of a mate in two: every `go` that completes a 4-ply iteration — under every
    limit, stop point and monotone clock, cache on, from any cache satisfying the invariant — answers with a move that
    is legal under the rules of chess and after which the opponent is forcibly mated (key / draw hypotheses as in
    `mate_in_two_kept_four`).  `chess_lost_by_the_rules` reads `Lost` over the rules spec. -/
theorem chess_mate_in_two_by_the_rules (b : Board) (hl : Legal b) (hp : PotentialBounded b) (g : GoLimits)
    (maxDepth : Option Nat) (clock : Nat → Nat) (hc : ∀ i j, i ≤ j → clock i ≤ clock j) (stopAtPoll : Nat)
    (tt0 : Search.Table Ply)
    (hk : KeyMate chessGame) (hL : LineKeys chessGame b) (hd : NoDrawBelow3 chessGame b)
    (hinv : MateTwoInv chessGame b tt0)
    (hno : ∀ mv ∈ Rules.legalMoves (abs b), Rules.isCheckmate (Rules.apply (abs b) mv) = false)
    (hex : ∃ mv, SpecMateInTwoBy (abs b) mv)
    (hdone : ∃ i ∈ (chessSearch b g maxDepth clock stopAtPoll false tt0).infos, i.depth ≥ 4) :
    ∃ m, (chessSearch b g maxDepth clock stopAtPoll false tt0).best = some m ∧
         m ∈ b.legalMovesPure ∧ absMove m ∈ Rules.legalMoves (abs b) ∧
         Lost chessGame (b.makeMove m) := by
  obtain ⟨mv, hmv⟩ := hex
  obtain ⟨m0, hm0, _⟩ := chess_spec_mateInTwo_has_model_move b hl mv hmv
  have he := C09.chess_eval_bounded b hl.wf hp
  obtain ⟨m, hbm, hlost⟩ := (RCE.Proofs.SearchMateTwo.mate_in_two_kept_four
    { limits := g.toLimits b.turn, clock := clock, stopAtPoll := stopAtPoll, cacheOff := false } chessGame b maxDepth tt0
    hc he hk ((chess_noMateInOne_iff b hl).mpr hno) hL hd ⟨m0, hm0⟩ hinv hdone).1
  have hb := best_of_bestMove
    { limits := g.toLimits b.turn, clock := clock, stopAtPoll := stopAtPoll, cacheOff := false } chessGame b maxDepth tt0
    m hbm
  obtain ⟨m', hb', hm'⟩ := C09.one_legal_bestmove
    { limits := g.toLimits b.turn, clock := clock, stopAtPoll := stopAtPoll, cacheOff := false } chessGame b maxDepth tt0
    (List.ne_nil_of_mem hm0.1) he (tableScoresOK_of_strict hinv.1.2)
  have hmm : m' = m := by
    rw [hb] at hb'; exact (Option.some.inj hb').symm
  have hmem : m ∈ b.legalMovesPure := by
    rw [C09.chess_legalMovesOf, hmm] at hm'; exact hm'
  exact ⟨m, hb, hmem, chess_model_move_is_spec_move b hl m hmem, hlost⟩

/-! ## `Lost` under the rules: a forced mate of bounded length -/

/-- under the rules: the side to move is checkmated now, or — within `n` further moves of its own — whatever it plays
    (and it has a legal move), the opponent has a legal answer after which it is again in this situation -/
def SpecLost : Nat → Rules.Pos → Prop
  | 0, p => Rules.isCheckmate p = true
  | n + 1, p => Rules.isCheckmate p = true ∨
      (Rules.legalMoves p ≠ [] ∧
       ∀ r ∈ Rules.legalMoves p, ∃ x ∈ Rules.legalMoves (Rules.apply p r), SpecLost n (Rules.apply (Rules.apply p r) x))

/-- under the rules: the side to move has a legal move after which the opponent is `SpecLost n` -/
def SpecWon (n : Nat) (p : Rules.Pos) : Prop := ∃ x ∈ Rules.legalMoves p, SpecLost n (Rules.apply p x)

theorem specLost_succ : ∀ (n : Nat) (p : Rules.Pos), SpecLost n p → SpecLost (n + 1) p
  | 0, _, h => Or.inl h
  | n + 1, p, h => by
    rcases h with h | ⟨h1, h2⟩
    · exact Or.inl h
    · refine Or.inr ⟨h1, fun r hr => ?_⟩
      obtain ⟨x, hx, hxl⟩ := h2 r hr
      exact ⟨x, hx, specLost_succ n _ hxl⟩

theorem specLost_mono {n k : Nat} (hnk : n ≤ k) (p : Rules.Pos) (h : SpecLost n p) : SpecLost k p := by
  induction hnk with
  | refl => exact h
  | step _ ih => exact specLost_succ _ _ ih

theorem specWon_mono {n k : Nat} (hnk : n ≤ k) (p : Rules.Pos) (h : SpecWon n p) : SpecWon k p := by
  obtain ⟨x, hx, hl⟩ := h
  exact ⟨x, hx, specLost_mono hnk _ hl⟩

/-- finitely many bounds have a common one -/
theorem specWon_uniform (p : Rules.Pos) :
    ∀ (l : List Rules.Move), (∀ r ∈ l, ∃ n, SpecWon n (Rules.apply p r)) → ∃ N, ∀ r ∈ l, SpecWon N (Rules.apply p r)
  | [], _ => ⟨0, fun _ h => absurd h List.not_mem_nil⟩
  | a :: l, h => by
    obtain ⟨n1, h1⟩ := h a List.mem_cons_self
    obtain ⟨n2, h2⟩ := specWon_uniform p l (fun r hr => h r (List.mem_cons_of_mem _ hr))
    refine ⟨max n1 n2, fun r hr => ?_⟩
    rcases List.mem_cons.mp hr with rfl | hr
    · exact specWon_mono (Nat.le_max_left _ _) _ h1
    · exact specWon_mono (Nat.le_max_right _ _) _ (h2 r hr)

/-- a position that is checkmate in the model is checkmate under the rules -/
theorem chess_mated_iff (c : Board) (hl : Legal c) : Mated chessGame c ↔ Rules.isCheckmate (abs c) = true := by
  have hpure := (RCE.Proofs.BoardUndo.legalMoves_pure' c hl.wf).2
  have hms := (C01.mate_stalemate_exact c hl).1
  rw [hpure] at hms
  rw [← hms]
  have hchk : chessGame.inCheck c = c.isInCheck c.turn := rfl
  unfold Mated
  rw [C09.chess_legalMovesOf, hchk]
  constructor
  · intro h
    rw [h.1, h.2]; rfl
  · intro h
    rw [Bool.and_eq_true] at h
    exact ⟨List.isEmpty_iff.mp h.1, h.2⟩

/-- **`Lost` under the rules of chess**: if the side to move in a legal-game position is forcibly mated in the search's
    game interface, then it is forcibly mated under the rules of chess, within some bounded number of moves -/
theorem chess_lost_by_the_rules {c : Board} (h : Lost chessGame c) : Legal c → ∃ n, SpecLost n (abs c) :=
  Lost.rec (motive_1 := fun a _ => Legal a → ∃ n, SpecLost n (abs a))
    (motive_2 := fun a _ => Legal a → ∃ n, SpecWon n (abs a))
    (fun {p} hnil hchk hl => ⟨0, (chess_mated_iff p hl).mp ⟨hnil, hchk⟩⟩)
    (fun {p} hne _ ih hl => by
      have hall : ∀ r ∈ Rules.legalMoves (abs p), ∃ n, SpecWon n (Rules.apply (abs p) r) := by
        intro r hr
        obtain ⟨m, hm, he⟩ := chess_spec_move_has_model_move p hl r hr
        obtain ⟨hl', habs⟩ := chess_child p hl m hm
        have := ih m (by rw [C09.chess_legalMovesOf]; exact hm) hl'
        have hplay : chessGame.play p m = p.makeMove m := rfl
        rw [hplay, habs, he] at this
        exact this
      obtain ⟨N, hN⟩ := specWon_uniform (abs p) _ hall
      exact ⟨N + 1, Or.inr ⟨(chess_has_move_iff p hl).mp hne, hN⟩⟩)
    (fun {p} m hm _ ih hl => by
      have hmem : m ∈ p.legalMovesPure := by
        rw [C09.chess_legalMovesOf] at hm; exact hm
      obtain ⟨hl', habs⟩ := chess_child p hl m hmem
      obtain ⟨n, hn⟩ := ih hl'
      have hplay : chessGame.play p m = p.makeMove m := rfl
      rw [hplay, habs] at hn
      exact ⟨n, absMove m, chess_model_move_is_spec_move p hl m hmem, hn⟩)
    h

/-- conversely, a bounded forced mate under the rules is a forced mate in the search's game interface -/
theorem chess_lost_of_specLost : ∀ (n : Nat) (c : Board), Legal c → SpecLost n (abs c) → Lost chessGame c
  | 0, c, hl, h => by
    have hm := (chess_mated_iff c hl).mpr h
    exact Lost.mate hm.1 hm.2
  | n + 1, c, hl, h => by
    rcases h with h | ⟨h1, h2⟩
    · have hm := (chess_mated_iff c hl).mpr h
      exact Lost.mate hm.1 hm.2
    · refine Lost.all ((chess_has_move_iff c hl).mpr h1) (fun m hm => ?_)
      have hmem : m ∈ c.legalMovesPure := by
        rw [C09.chess_legalMovesOf] at hm; exact hm
      obtain ⟨hl', habs⟩ := chess_child c hl m hmem
      obtain ⟨x, hx, hxl⟩ := h2 (absMove m) (chess_model_move_is_spec_move c hl m hmem)
      rw [← habs] at hx hxl
      obtain ⟨x', hx', he⟩ := chess_spec_move_has_model_move (c.makeMove m) hl' x hx
      obtain ⟨hl'', habs'⟩ := chess_child (c.makeMove m) hl' x' hx'
      rw [← he, ← habs'] at hxl
      have hplay : chessGame.play c m = c.makeMove m := rfl
      rw [hplay]
      exact Won.some x' (by rw [C09.chess_legalMovesOf]; exact hx')
        (chess_lost_of_specLost n ((c.makeMove m).makeMove x') hl'' hxl)

/-- `Lost` in a legal-game position is exactly a bounded forced mate under the rules of chess -/
theorem chess_lost_iff (c : Board) (hl : Legal c) : Lost chessGame c ↔ ∃ n, SpecLost n (abs c) :=
  ⟨fun h => chess_lost_by_the_rules h hl, fun ⟨n, h⟩ => chess_lost_of_specLost n c hl h⟩

open RCE.Proofs.EvalBound in
/-- `chess_mate_in_two_by_the_rules` with the conclusion read under the rules: after the answered move, the opponent is
    forcibly mated under the rules of chess -/
theorem chess_mate_in_two_forced_by_the_rules (b : Board) (hl : Legal b) (hp : PotentialBounded b) (g : GoLimits)
    (maxDepth : Option Nat) (clock : Nat → Nat) (hc : ∀ i j, i ≤ j → clock i ≤ clock j) (stopAtPoll : Nat)
    (tt0 : Search.Table Ply)
    (hk : KeyMate chessGame) (hL : LineKeys chessGame b) (hd : NoDrawBelow3 chessGame b)
    (hinv : MateTwoInv chessGame b tt0)
    (hno : ∀ mv ∈ Rules.legalMoves (abs b), Rules.isCheckmate (Rules.apply (abs b) mv) = false)
    (hex : ∃ mv, SpecMateInTwoBy (abs b) mv)
    (hdone : ∃ i ∈ (chessSearch b g maxDepth clock stopAtPoll false tt0).infos, i.depth ≥ 4) :
    ∃ m, (chessSearch b g maxDepth clock stopAtPoll false tt0).best = some m ∧
         absMove m ∈ Rules.legalMoves (abs b) ∧
         ∃ n, SpecLost n (Rules.apply (abs b) (absMove m)) := by
  obtain ⟨m, hb, hmem, hleg, hlost⟩ :=
    chess_mate_in_two_by_the_rules b hl hp g maxDepth clock hc stopAtPoll tt0 hk hL hd hinv hno hex hdone
  obtain ⟨hl', habs⟩ := chess_child b hl m hmem
  have h := chess_lost_by_the_rules hlost hl'
  rw [habs] at h
  exact ⟨m, hb, hleg, h⟩

end RCE.Props.C12

#print axioms RCE.Props.C12.chess_noMateInOne_iff
#print axioms RCE.Props.C12.chess_allowsMateInOne_iff
#print axioms RCE.Props.C12.chess_safe_iff
#print axioms RCE.Props.C12.chess_mateInTwoBy_iff
#print axioms RCE.Props.C12.chess_avoidable_mate_by_the_rules
#print axioms RCE.Props.C12.chess_mate_in_two_by_the_rules
#print axioms RCE.Props.C12.chess_lost_by_the_rules
#print axioms RCE.Props.C12.chess_lost_iff
#print axioms RCE.Props.C12.chess_mate_in_two_forced_by_the_rules
