import RCE.Proofs.SearchMate
import RCE.Proofs.SearchMateOne
import RCE.Proofs.SearchMateOneChess
import RCE.Proofs.SearchMateAvoid
import RCE.Proofs.SearchMateTwo
/-! # C12 — with caching on, mate scores are sound

`Won G p` / `Lost G p`: the side to move in `p` has a forced mate / is forcibly mated (inductive, any
length).  Intended: for **every** cache content satisfying the invariant `MateSound`, every limit, every
interruption point, the search preserves the invariant, and a winning mate score reported for the
root means the chosen move really forces mate.  (`KeyMate` assumed: positions with the same 64-bit key agree on
forced mates.)

**Finding.**  Both clauses are FALSE for the search as written (`tt_mate_sound_statement`,
`mate_score_sound_statement` below; counterexamples `RCE.Proofs.SearchMate.Counter.G1` / `G2`, evaluated in
`RCE/Proofs/SearchMate.lean`, with `tt_mate_sound_refuted` / `mate_score_sound_refuted` reducing the refutation to the
displayed `#eval` results).  The root window's β is `MAXS = 32767`, which is also the score of a mate in one
(`satNeg (MINS + 1)`).  When the root's α reaches `MAXS` the remaining root moves are searched with the null window
`(−32768, −32767)` and every window below it is empty (`(32767, 32767)`, `(−32767, −32767)`, …).  In an empty window a
fail-hard return is not a bound: quiescence stands pat with `β = −32767`, the parent reads `32767 ≥ β`, cuts, and
stores `⟨32767, lower⟩` — "forced mate" — for an arbitrary position (write site 2); a later iteration (or search)
reads it in an ordinary window and reports a mate that is not there.

What is proved (`_partial`): both clauses hold when (a) no legal root move mates at once (`NoMateInOne`) and (b) the
initial cache holds no score `≤ −32767` or `≥ 32767` (`StrictScores`; true of the empty cache, and preserved by the
search under (a)).  The two counterexamples show that neither (a) nor (b) can be dropped.

**Completeness, first clause — proved**: `mate_in_one_played`: if some legal root move mates at once, then after any
completed iteration (any depth ≥ 1, any limits / stop point / monotone clock, cache on) the chosen move is a mating move,
from the empty cache and from every cache left by earlier completed searches of the same position
(`mate_in_one_played_again`; invariant `MateOneInv`: nothing is stored for a mated child, and the cache is clean or the
root's entry is an exact one naming a mating move).  Hypotheses beyond those of the soundness theorems, each shown
necessary by a kernel-checked counter-example in `Proofs/SearchMateOne.lean`: `MatedKeysFresh` (no writing node below
the root carries a mated child's key — `KeyMate` alone is not enough), `NoDrawAtMate` (the mated children are not declared
draws by the fifty-move / repetition tests that run before the mate test: "given without prior history and with a small
half-move clock"), `OrderScoresOK` (static ordering scores stay below the score reserved for the cached move: proved
for chess, `chess_orderScoresOK`), and the cache being on in the earlier searches too.  `mate_in_one_nonvacuous`: all
hypotheses hold of a concrete game whose mating move is not generated first.

**Completeness, third clause — proved in part, refuted as stated**: `avoidable_mate_avoided_partial`: if no root move mates at
once and some legal move does not allow a mate in one, then after any completed iteration of depth ≥ 2 the chosen move
does not allow one; the invariant `AvoidInv` holds of the empty cache and is re-established by every search (completed or
interrupted), so the statement covers earlier searches of the same position (`avoidable_mate_avoided_again`).  It needs,
beyond `KeyMate`: `PlyKeys` (the key of a root child in which the opponent mates at once is carried only by ply-1 nodes:
mate scores are ply-relative and stored unadjusted, so an entry written for such a position at another ply misstates
the distance — `Counter.G5`: stored at ply 1, read at ply 3; `Counter.G6`: stored at ply 5, read at ply 1, the blunder
then scores −32762 and beats a safe move worth −32764), `MatedKeysFresh2`, `NoDrawAtMate2`; each is shown necessary by a
counter-example, and `avoid_clean_refuted` refutes the statement without `PlyKeys` for the search as written.  In chess
a ply-1 / ply-3 transposition is impossible; a ply-1 / ply-5 one (the opponent moving out and back) is possible: see
DESIGN.md, finding D10.

**Completeness, second clause — proved in part, refuted as stated**: `mate_in_two_kept_partial`: if a mate in two exists
whose key move does not give check, then after a completed 3-ply iteration the chosen move keeps a forced mate (the
reported score is a mate score and the opponent is `Lost` after it); with ANY key move the same holds after a completed
4-ply iteration (`mate_in_two_kept_four`); the invariant `MateTwoInv` holds of the empty cache and is re-established by
every search, so the statements cover earlier searches of the same position (`mate_in_two_kept_again`).  Hypotheses
beyond `KeyMate` / `NoMateInOne`: `LineKeys` (tree nodes sharing a key with a node of the mating line are of the same
kind or never write: this is where graph-history interaction is excluded) and `NoDrawBelow3` (no fifty-move / repetition
draw within three plies of the root).  `mate_in_two_statement_refuted`: for a CHECKING key move the 3-ply statement is
false for the search as written even from the empty cache, with an injective key and no draws (`Counter.GC`): the cache
stores the depth after the check extension but compares it with the requested depth before it, and a lower bound read from
the cache leaks into a later stored exact score; the run needs a transposition into the position after the key move at
ply 3, which cannot occur in chess (ply 5 can): see DESIGN.md, finding D11.

All three clauses are also decided on mined chess positions by the differential check against a mate solver over the
rules spec, see DESIGN.md. -/
namespace RCE.Props.C12
open RCE.Search RCE.Proofs.SearchDefs RCE.Proofs.SearchMate

variable {P M : Type} [DecidableEq M]

/-- as specified: the search keeps the cache mate-sound, whatever happens — FALSE, see above -/
def tt_mate_sound_statement : Prop := RCE.Proofs.SearchMate.tt_mate_sound_statement

/-- as specified: a winning mate score for the root is backed by a forced mate after the chosen move — FALSE, see above -/
def mate_score_sound_statement : Prop := RCE.Proofs.SearchMate.mate_score_sound_statement

/-- the search keeps the cache mate-sound, whatever happens (limits, stops, draws by repetition on the path) —
    if no root move mates at once and the initial cache has no score `≤ −32767` / `≥ 32767` -/
theorem tt_mate_sound_partial (env : Env) (G : Game P M) (p : P) (maxDepth : Option Nat) (tt0 : Table M)
    (hk : KeyMate G) (he : EvalBoundedFrom G p) (hs : MateSound G tt0)
    (hno : NoMateInOne G p) (hst : StrictScores tt0) :
    MateSound G (search env G p maxDepth tt0).st.tt :=
  RCE.Proofs.SearchMate.tt_mate_sound_partial env G p maxDepth tt0 hk he hs hno hst

/-- a winning mate score for the root is backed by a forced mate after the chosen move — same provisos -/
theorem mate_score_sound_partial (env : Env) (G : Game P M) (p : P) (maxDepth : Option Nat) (tt0 : Table M)
    (hk : KeyMate G) (he : EvalBoundedFrom G p) (hs : MateSound G tt0)
    (hno : NoMateInOne G p) (hst : StrictScores tt0) (s : Int) (m : M)
    (hb : (search env G p maxDepth tt0).st.bestScore = some s) (hw : s ≥ MAXS - 255)
    (hm : (search env G p maxDepth tt0).st.bestMove = some m) :
    Lost G (G.play p m) :=
  RCE.Proofs.SearchMate.mate_score_sound_partial env G p maxDepth tt0 hk he hs hno hst s m hb hw hm

open RCE.Proofs.SearchMateOne in
/-- a mate in one is played: after any completed iteration the chosen move mates at once, and the cache invariant that
    makes this repeatable is re-established -/
theorem mate_in_one_played (env : Env) (G : Game P M) (p : P) (maxDepth : Option Nat) (tt0 : Table M)
    (hc : MonoClock env) (hoff : env.cacheOff = false) (he : EvalBoundedFrom G p) (hk : KeyMate G)
    (hK : MatedKeysFresh G p) (hD : NoDrawAtMate G p) (hO : OrderScoresOK G p)
    (hex : ∃ m, Mates G p m) (hinv : MateOneInv G p tt0) (hdone : (search env G p maxDepth tt0).infos ≠ []) :
    (∃ m, (search env G p maxDepth tt0).st.bestMove = some m ∧ Mates G p m) ∧
    MateOneInv G p (search env G p maxDepth tt0).st.tt :=
  RCE.Proofs.SearchMateOne.mate_in_one_played env G p maxDepth tt0 hc hoff he hk hK hD hO hex hinv hdone

open RCE.Proofs.SearchMateOne in
/-- … and it is the move printed after `bestmove` -/
theorem mate_in_one_answered (env : Env) (G : Game P M) (p : P) (maxDepth : Option Nat) (tt0 : Table M)
    (hc : MonoClock env) (hoff : env.cacheOff = false) (he : EvalBoundedFrom G p) (hk : KeyMate G)
    (hK : MatedKeysFresh G p) (hD : NoDrawAtMate G p) (hO : OrderScoresOK G p)
    (hex : ∃ m, Mates G p m) (hinv : MateOneInv G p tt0) (hdone : (search env G p maxDepth tt0).infos ≠ []) :
    ∃ m, (search env G p maxDepth tt0).best = some m ∧ Mates G p m :=
  RCE.Proofs.SearchMateOne.mate_in_one_answered env G p maxDepth tt0 hc hoff he hk hK hD hO hex hinv hdone

open RCE.Proofs.SearchMateOne in
/-- the empty cache satisfies the invariant -/
theorem mateOneInv_empty (G : Game P M) (p : P) : MateOneInv G p ({} : Table M) :=
  RCE.Proofs.SearchMateOne.mateOneInv_empty G p

/-- the ordering-score hypothesis holds for chess, whatever the position -/
theorem chess_orderScoresOK (b : RCE.Board) : RCE.Proofs.SearchMateOne.OrderScoresOK RCE.chessGame b :=
  RCE.Proofs.SearchMateOneChess.chess_orderScoresOK b

/-- non-vacuity: every hypothesis of `mate_in_one_played` holds of a concrete game (mating move generated second) -/
theorem mate_in_one_nonvacuous :
    ∃ m, (search {} RCE.Proofs.SearchMateOneChess.G5 0 (some 2) {}).st.bestMove = some m ∧
      RCE.Proofs.SearchMateOne.Mates RCE.Proofs.SearchMateOneChess.G5 0 m :=
  RCE.Proofs.SearchMateOneChess.mate_in_one_nonvacuous

open RCE.Proofs.SearchMateOne RCE.Proofs.SearchMateAvoid in
/-- an avoidable mate in one is avoided — under `PlyKeys`, `MatedKeysFresh2`, `NoDrawAtMate2` (see the header) -/
theorem avoidable_mate_avoided_partial (env : Env) (G : Game P M) (p : P) (maxDepth : Option Nat) (tt0 : Table M)
    (hc : MonoClock env) (hoff : env.cacheOff = false) (he : EvalBoundedFrom G p) (hk : KeyMate G)
    (hP : PlyKeys G p) (hK : MatedKeysFresh2 G p) (hD : NoDrawAtMate2 G p)
    (hno : NoMateInOne G p) (hsafe : ∃ s, Safe G p s) (hinv : AvoidInv G p tt0)
    (hdone : ∃ i ∈ (search env G p maxDepth tt0).infos, i.depth ≥ 2) :
    (∃ m, (search env G p maxDepth tt0).st.bestMove = some m ∧ Safe G p m) ∧
    AvoidInv G p (search env G p maxDepth tt0).st.tt :=
  RCE.Proofs.SearchMateAvoid.avoidable_mate_avoided env G p maxDepth tt0 hc hoff he hk hP hK hD hno hsafe hinv hdone

open RCE.Proofs.SearchMateOne RCE.Proofs.SearchMateAvoid in
/-- … also after any number of earlier searches of the position (completed or interrupted, cache on) -/
theorem avoidable_mate_avoided_again (G : Game P M) (p : P) (he : EvalBoundedFrom G p) (hk : KeyMate G)
    (hP : PlyKeys G p) (hK : MatedKeysFresh2 G p) (hD : NoDrawAtMate2 G p) (hno : NoMateInOne G p)
    (hsafe : ∃ s, Safe G p s) :
    ∀ (gs : List Go) (tt0 : Table M), AvoidInv G p tt0 → (∀ g ∈ gs, MonoClock g.env ∧ g.env.cacheOff = false) →
      AvoidInv G p (cacheAfter G p gs tt0) ∧
      ∀ (env : Env) (maxDepth : Option Nat), MonoClock env → env.cacheOff = false →
        (∃ i ∈ (search env G p maxDepth (cacheAfter G p gs tt0)).infos, i.depth ≥ 2) →
        ∃ m, (search env G p maxDepth (cacheAfter G p gs tt0)).st.bestMove = some m ∧ Safe G p m :=
  RCE.Proofs.SearchMateAvoid.avoidable_mate_avoided_again G p he hk hP hK hD hno hsafe

/-- the third clause as stated (no hypothesis about keys at different plies) is FALSE for the search as written:
    reduced to the displayed run of `Counter.G5` in `Proofs/SearchMateAvoid.lean` -/
theorem avoidable_mate_statement_refuted
    (hrun : (∃ i ∈ RCE.Proofs.SearchMateAvoid.Counter.r5.infos, i.depth ≥ 2) ∧
            RCE.Proofs.SearchMateAvoid.Counter.r5.st.bestMove = some 1) :
    ¬ RCE.Proofs.SearchMateAvoid.avoidable_mate_avoided_clean_statement :=
  RCE.Proofs.SearchMateAvoid.Counter.avoid_clean_refuted hrun

open RCE.Proofs.SearchMateOne RCE.Proofs.SearchMateTwo in
/-- a mate in two with a quiet key move is kept after a completed 3-ply iteration -/
theorem mate_in_two_kept_partial (env : Env) (G : Game P M) (p : P) (maxDepth : Option Nat) (tt0 : Table M)
    (hc : MonoClock env) (he : EvalBoundedFrom G p) (hk : KeyMate G)
    (hno : NoMateInOne G p) (hL : LineKeys G p) (hd : NoDrawBelow3 G p)
    (hex : ∃ m, MateInTwoBy G p m ∧ G.inCheck (G.play p m) = false) (hinv : MateTwoInv G p tt0)
    (hdone : ∃ i ∈ (search env G p maxDepth tt0).infos, i.depth ≥ 3) :
    (∃ m, (search env G p maxDepth tt0).st.bestMove = some m ∧ Lost G (G.play p m)) ∧
    MateTwoInv G p (search env G p maxDepth tt0).st.tt :=
  RCE.Proofs.SearchMateTwo.mate_in_two_kept' env G p maxDepth tt0 hc he hk hno hL hd hex hinv hdone

open RCE.Proofs.SearchMateOne RCE.Proofs.SearchMateTwo in
/-- a mate in two with any key move is kept after a completed 4-ply iteration -/
theorem mate_in_two_kept_four (env : Env) (G : Game P M) (p : P) (maxDepth : Option Nat) (tt0 : Table M)
    (hc : MonoClock env) (he : EvalBoundedFrom G p) (hk : KeyMate G)
    (hno : NoMateInOne G p) (hL : LineKeys G p) (hd : NoDrawBelow3 G p)
    (hex : ∃ m, MateInTwoBy G p m) (hinv : MateTwoInv G p tt0)
    (hdone : ∃ i ∈ (search env G p maxDepth tt0).infos, i.depth ≥ 4) :
    (∃ m, (search env G p maxDepth tt0).st.bestMove = some m ∧ Lost G (G.play p m)) ∧
    MateTwoInv G p (search env G p maxDepth tt0).st.tt :=
  RCE.Proofs.SearchMateTwo.mate_in_two_kept_four env G p maxDepth tt0 hc he hk hno hL hd hex hinv hdone

/-- the second clause as stated (3 plies, any key move) is FALSE for the search as written, even from the empty cache with an
    injective key and no draws: reduced to the displayed run of `Counter.GC` in `Proofs/SearchMateTwo.lean` -/
theorem mate_in_two_statement_refuted
    (hrun : (∃ i ∈ RCE.Proofs.SearchMateTwo.Counter.rC.infos, i.depth ≥ 3) ∧
            RCE.Proofs.SearchMateTwo.Counter.rC.st.bestMove = some 1) :
    ¬ RCE.Proofs.SearchMateTwo.Counter.mate_in_two_kept_statement :=
  RCE.Proofs.SearchMateTwo.Counter.mate_in_two_kept_refuted hrun

/-- the full statements are refuted by the two runs displayed in `RCE/Proofs/SearchMate.lean` -/
theorem statements_refuted
    (hrun1 : ∃ e, Counter.r1.st.tt[Counter.G1.key 3]? = some e ∧ e.bound = .lower ∧ e.score = 32767)
    (hrun2 : Counter.r2.st.bestScore = some 32767 ∧ Counter.r2.st.bestMove = some 2) :
    ¬ tt_mate_sound_statement ∧ ¬ mate_score_sound_statement :=
  ⟨Counter.tt_mate_sound_refuted hrun1, Counter.mate_score_sound_refuted hrun2⟩

end RCE.Props.C12

#print axioms RCE.Props.C12.tt_mate_sound_partial
#print axioms RCE.Props.C12.mate_score_sound_partial
#print axioms RCE.Props.C12.statements_refuted
#print axioms RCE.Props.C12.mate_in_one_played
#print axioms RCE.Props.C12.mate_in_one_answered
#print axioms RCE.Props.C12.mateOneInv_empty
#print axioms RCE.Props.C12.chess_orderScoresOK
#print axioms RCE.Props.C12.mate_in_one_nonvacuous
#print axioms RCE.Props.C12.avoidable_mate_avoided_partial
#print axioms RCE.Props.C12.avoidable_mate_avoided_again
#print axioms RCE.Props.C12.avoidable_mate_statement_refuted
#print axioms RCE.Props.C12.mate_in_two_kept_partial
#print axioms RCE.Props.C12.mate_in_two_kept_four
#print axioms RCE.Props.C12.mate_in_two_statement_refuted
