import RCE.Proofs.SearchMate
/-! # C12 — with caching on, mate scores are sound

`Won G p` / `Lost G p`: the side to move in `p` has a forced mate / is forcibly mated (inductive, any
length).  For **every** cache content satisfying the invariant `MateSound`, every limit, every
interruption point: the search preserves the invariant, and a winning mate score reported for the
root means the chosen move really forces mate.  (`KeyMate` assumed: positions with the same 64-bit key agree on
forced mates.)  The completeness clauses of the property (a mate in ≤ 2 *is found* after a completed
3-ply iteration, also with a pre-loaded cache) are not theorems — stored mate distances are relative
to the root that stored them, so that statement is path-dependent; it is decided by the differential
check against a mate solver over the rules spec, see DESIGN.md. -/
namespace RCE.Props.C12
open RCE.Search RCE.Proofs.SearchDefs RCE.Proofs.SearchMate

variable {P M : Type} [DecidableEq M]

/-- the search keeps the cache mate-sound, whatever happens (limits, stops, draws by repetition on the path) -/
theorem tt_mate_sound (env : Env) (G : Game P M) (p : P) (maxDepth : Option Nat) (tt0 : Table M)
    (hk : KeyMate G) (he : EvalBoundedFrom G p) (hs : MateSound G tt0) :
    MateSound G (search env G p maxDepth tt0).st.tt :=
  tt_mate_sound' env G p maxDepth tt0 hk he hs

/-- a winning mate score for the root is backed by a forced mate after the chosen move -/
theorem mate_score_sound (env : Env) (G : Game P M) (p : P) (maxDepth : Option Nat) (tt0 : Table M)
    (hk : KeyMate G) (he : EvalBoundedFrom G p) (hs : MateSound G tt0) (s : Int) (m : M)
    (hb : (search env G p maxDepth tt0).st.bestScore = some s) (hw : s ≥ MAXS - 255)
    (hm : (search env G p maxDepth tt0).st.bestMove = some m) :
    Lost G (G.play p m) :=
  mate_score_sound' env G p maxDepth tt0 hk he hs s m hb hw hm

end RCE.Props.C12

#print axioms RCE.Props.C12.tt_mate_sound
#print axioms RCE.Props.C12.mate_score_sound
