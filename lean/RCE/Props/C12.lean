import RCE.Proofs.SearchMate
/-! # C12 — with caching on, mate scores are sound

`Won G p` / `Lost G p`: the side to move in `p` has a forced mate / is forcibly mated (inductive, any
length).  Intended: for **every** cache content satisfying the invariant `MateSound`, every limit, every
interruption point, the search preserves the invariant, and a winning mate score reported for the
root means the chosen move really forces mate.  (`KeyMate` assumed: positions with the same 64-bit key agree on
forced mates.)

**Finding.**  Both clauses are FALSE for the search as written (`tt_mate_sound_statement`,
`mate_score_sound_statement` below; counterexamples `RCE.Proofs.SearchMate.Counter.G1` / `G2`, evaluated in
`RCE/Proofs/SearchMate.lean`, with `tt_mate_sound_refuted` / `mate_score_sound_refuted` reducing the refutation to the
displayed `#eval` results).  The root window's β is `MAXS = 32767`, which is also the score of a mate in one
(`satNeg (MINS + 1)`).  When the root's α reaches `MAXS` the remaining root moves are searched with the null window
`(−32768, −32767)` and every window below it is empty (`(32767, 32767)`, `(−32767, −32767)`, …).  In an empty window a
fail-hard return is not a bound: quiescence stands pat with `β = −32767`, the parent reads `32767 ≥ β`, cuts, and
stores `⟨32767, lower⟩` — "forced mate" — for an arbitrary position (write site 2); a later iteration (or search)
reads it in an ordinary window and reports a mate that is not there.

What is proved (`_partial`): both clauses hold when (a) no legal root move mates at once (`NoMateInOne`) and (b) the
initial cache holds no score `≤ −32767` or `≥ 32767` (`StrictScores`; true of the empty cache, and preserved by the
search under (a)).  The two counterexamples show that neither (a) nor (b) can be dropped.

The completeness clauses of the property (a mate in ≤ 2 *is found* after a completed 3-ply iteration, also with a
pre-loaded cache) are not theorems — stored mate distances are relative to the root that stored them, so that
statement is path-dependent; it is decided by the differential check against a mate solver over the rules spec, see
DESIGN.md. -/
namespace RCE.Props.C12
open RCE.Search RCE.Proofs.SearchDefs RCE.Proofs.SearchMate

variable {P M : Type} [DecidableEq M]

/-- as specified: the search keeps the cache mate-sound, whatever happens — FALSE, see above -/
def tt_mate_sound_statement : Prop := RCE.Proofs.SearchMate.tt_mate_sound_statement

/-- as specified: a winning mate score for the root is backed by a forced mate after the chosen move — FALSE, see above -/
def mate_score_sound_statement : Prop := RCE.Proofs.SearchMate.mate_score_sound_statement

/-- the search keeps the cache mate-sound, whatever happens (limits, stops, draws by repetition on the path) —
    if no root move mates at once and the initial cache has no score `≤ −32767` / `≥ 32767` -/
theorem tt_mate_sound_partial (env : Env) (G : Game P M) (p : P) (maxDepth : Option Nat) (tt0 : Table M)
    (hk : KeyMate G) (he : EvalBoundedFrom G p) (hs : MateSound G tt0)
    (hno : NoMateInOne G p) (hst : StrictScores tt0) :
    MateSound G (search env G p maxDepth tt0).st.tt :=
  RCE.Proofs.SearchMate.tt_mate_sound_partial env G p maxDepth tt0 hk he hs hno hst

/-- a winning mate score for the root is backed by a forced mate after the chosen move — same provisos -/
theorem mate_score_sound_partial (env : Env) (G : Game P M) (p : P) (maxDepth : Option Nat) (tt0 : Table M)
    (hk : KeyMate G) (he : EvalBoundedFrom G p) (hs : MateSound G tt0)
    (hno : NoMateInOne G p) (hst : StrictScores tt0) (s : Int) (m : M)
    (hb : (search env G p maxDepth tt0).st.bestScore = some s) (hw : s ≥ MAXS - 255)
    (hm : (search env G p maxDepth tt0).st.bestMove = some m) :
    Lost G (G.play p m) :=
  RCE.Proofs.SearchMate.mate_score_sound_partial env G p maxDepth tt0 hk he hs hno hst s m hb hw hm

/-- the full statements are refuted by the two runs displayed in `RCE/Proofs/SearchMate.lean` -/
theorem statements_refuted
    (hrun1 : ∃ e, Counter.r1.st.tt[Counter.G1.key 3]? = some e ∧ e.bound = .lower ∧ e.score = 32767)
    (hrun2 : Counter.r2.st.bestScore = some 32767 ∧ Counter.r2.st.bestMove = some 2) :
    ¬ tt_mate_sound_statement ∧ ¬ mate_score_sound_statement :=
  ⟨Counter.tt_mate_sound_refuted hrun1, Counter.mate_score_sound_refuted hrun2⟩

end RCE.Props.C12

#print axioms RCE.Props.C12.tt_mate_sound_partial
#print axioms RCE.Props.C12.mate_score_sound_partial
#print axioms RCE.Props.C12.statements_refuted
