import RCE.Proofs.SearchBest
/-! # C09 — every go is answered by exactly one legal bestmove, whatever the limits

`Search.search` is the whole of what the search thread does for one `go`; its result carries exactly
one `best` field, printed as the single `bestmove` line.  The theorems hold for every game, every
position with a legal move, **every** limit combination (node budget, move time, clock control — any
values including 0), every clock, every external stop point and every initial cache with `i16` scores. -/
namespace RCE.Props.C09
open RCE.Search RCE.Proofs.SearchDefs RCE.Proofs.SearchBest

variable {P M : Type} [DecidableEq M]

/-- the move answered is a legal move of the searched position -/
theorem one_legal_bestmove (env : Env) (G : Game P M) (p : P) (maxDepth : Option Nat) (tt0 : Table M)
    (hl : legalMovesOf G p ≠ []) (he : EvalBoundedFrom G p) (ht : TableScoresOK tt0) :
    ∃ m, (search env G p maxDepth tt0).best = some m ∧ m ∈ legalMovesOf G p :=
  one_legal_bestmove' env G p maxDepth tt0 hl he ht

/-- the ply counter never leaves `0..255`, so every `killers[info.depth]` access is in range and no `u8`
    arithmetic on it overflows: `ab` called at ply `k` with fuel `256 − k` returns at ply `k` -/
theorem ply_restored (env : Env) (G : Game P M) (fuel : Nat) (p : P) (a b : Int) (depth : Nat) (st : St M)
    (h : st.ply + fuel = 256) : (ab env G fuel p a b depth st).2.ply = st.ply :=
  ply_restored' env G fuel p a b depth st h

end RCE.Props.C09

#print axioms RCE.Props.C09.one_legal_bestmove
#print axioms RCE.Props.C09.ply_restored
