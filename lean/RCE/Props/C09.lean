import RCE.Proofs.SearchBest
import RCE.Props.C09chess
import RCE.Model.Search
import RCE.Proofs.MoveGen
import RCE.Proofs.Refine
import RCE.Proofs.BoardUndo
/-! # C09 — every go is answered by exactly one legal bestmove, whatever the limits

`Search.search` is the whole of what the search thread does for one `go`; its result carries exactly
one `best` field, printed as the single `bestmove` line.  The theorems hold for every game, every
position with a legal move, **every** limit combination (node budget, move time, clock control — any
values including 0), every clock, every external stop point and every initial cache with `i16` scores. -/
namespace RCE.Props.C09
open RCE.Search RCE.Proofs.SearchDefs RCE.Proofs.SearchBest

variable {P M : Type} [DecidableEq M]

/-- the move answered is a legal move of the searched position -/
theorem one_legal_bestmove (env : Env) (G : Game P M) (p : P) (maxDepth : Option Nat) (tt0 : Table M)
    (hl : legalMovesOf G p ≠ []) (he : EvalBoundedFrom G p) (ht : TableScoresOK tt0) :
    ∃ m, (search env G p maxDepth tt0).best = some m ∧ m ∈ legalMovesOf G p :=
  one_legal_bestmove' env G p maxDepth tt0 hl he ht

/-- the ply counter never leaves `0..255`, so every `killers[info.depth]` access is in range and no `u8`
    arithmetic on it overflows: `ab` called at ply `k` with fuel `256 − k` returns at ply `k` -/
theorem ply_restored (env : Env) (G : Game P M) (fuel : Nat) (p : P) (a b : Int) (depth : Nat) (st : St M)
    (h : st.ply + fuel = 256) : (ab env G fuel p a b depth st).2.ply = st.ply :=
  ply_restored' env G fuel p a b depth st h

/-! ### the chess instance, end to end: the move answered is legal under the rules of chess -/

open RCE RCE.Proofs.Abs RCE.Proofs.BoardWF in
/-- the legal moves of the search's game interface are the model's legal moves -/
theorem chess_legalMovesOf (b : Board) : legalMovesOf chessGame b = b.legalMovesPure := rfl

open RCE RCE.Proofs.Abs RCE.Proofs.BoardWF in
/-- for every legal-game position with a legal move, every `go` (any limits, clock, stop point, cache with `i16` scores):
    the bestmove answered is, as (from, to, promotion), a legal move of the rules spec in that position -/
theorem chess_bestmove_legal_by_the_rules (b : Board) (hl : Legal b) (g : GoLimits) (maxDepth : Option Nat)
    (clock : Nat → Nat) (stopAtPoll : Nat) (cacheOff : Bool) (tt0 : Table Ply)
    (hm : b.legalMovesPure ≠ []) (he : EvalBoundedFrom chessGame b) (ht : TableScoresOK tt0) :
    ∃ m, (chessSearch b g maxDepth clock stopAtPoll cacheOff tt0).best = some m ∧
         absMove m ∈ Rules.legalMoves (abs b) := by
  obtain ⟨m, hb, hmem⟩ := one_legal_bestmove
    { limits := g.toLimits b.turn, clock := clock, stopAtPoll := stopAtPoll, cacheOff := cacheOff } chessGame b maxDepth tt0
    (by rw [chess_legalMovesOf]; exact hm) he ht
  refine ⟨m, hb, ?_⟩
  rw [chess_legalMovesOf] at hmem
  have hpure := (RCE.Proofs.BoardUndo.legalMoves_pure' b hl.wf).2
  have hex := (RCE.Proofs.MoveGen.legal_exact_of (fun b m hl hm => RCE.Proofs.Refine.make_refines' b m hl hm)
    RCE.Proofs.MoveGen.makeKeeps b hl).1
  have : absMove m ∈ (b.legalMoves).1.map absMove := by
    rw [hpure]; exact List.mem_map_of_mem hmem
  exact hex.mem_iff.mp this

open RCE RCE.Proofs.Abs RCE.Proofs.BoardWF RCE.Proofs.EvalBound in
/-- the same with the evaluation bound discharged: for every legal-game position whose promote-everything material is
    within the bound (every position with at most 16 men a side is), every `go` is answered with a move that is legal
    under the rules of chess -/
theorem chess_go_answers_a_legal_move (b : Board) (hl : Legal b) (hp : PotentialBounded b) (g : GoLimits)
    (maxDepth : Option Nat) (clock : Nat → Nat) (stopAtPoll : Nat) (cacheOff : Bool) (tt0 : Table Ply)
    (hm : b.legalMovesPure ≠ []) (ht : TableScoresOK tt0) :
    ∃ m, (chessSearch b g maxDepth clock stopAtPoll cacheOff tt0).best = some m ∧
         absMove m ∈ Rules.legalMoves (abs b) :=
  chess_bestmove_legal_by_the_rules b hl g maxDepth clock stopAtPoll cacheOff tt0 hm
    (chess_eval_bounded b hl.wf hp) ht

end RCE.Props.C09

#print axioms RCE.Props.C09.one_legal_bestmove
#print axioms RCE.Props.C09.ply_restored
#print axioms RCE.Props.C09.chess_bestmove_legal_by_the_rules
#print axioms RCE.Props.C09.chess_go_answers_a_legal_move
