import RCE.Model.Conc
/-! # C10 — stop is never lost and go is never dropped, under any timing

All statements are about `run true (init script) schedule` for **every** script over
{go (finite | infinite), stop, isready, position} and **every** schedule (any list of labels, any
length): induction over the schedule with an invariant.  What the model cannot show: that the OS
eventually schedules each thread (fairness is a hypothesis of the progress statement, expressed as
"after k further search steps"), and wall-clock latency. -/
namespace RCE.Props.C10
open RCE.Conc

/-- the invariant of the fixed protocol -/
structure Inv (total : Nat) (s : St) : Prop where
  /-- once the answer is being printed or is out, the flag is already cleared: the next `go` will be accepted -/
  flagClear : (s.thread = some .printing ∨ s.thread = some .printed ∨ s.thread = some .exited) → s.flag = false
  /-- nothing re-arms the flag: a stop that was processed for this search stays in force -/
  stopKept : s.stopSeen = true → s.flag = false
  /-- a search that has seen a stop takes at most the one node step that was already in flight -/
  prompt : s.nodesAfterStop = 0
  /-- bookkeeping: one bestmove per accepted go (the live search owes one until it has printed) -/
  owed : s.bestmoves + (if s.thread = some .spawned ∨ s.thread = some .searching ∨ s.thread = some .clearing ∨ s.thread = some .printing then 1 else 0) = s.accepted
  /-- no go is silently discarded: each is accepted, explicitly refused, or still waiting in the script -/
  gos : s.accepted + s.refused + countGo s.script = total
  idle : s.thread = none → s.accepted = 0

theorem inv_init (script : List Cmd) : Inv (countGo script) (init script) := by
  constructor <;> simp [init]

theorem inv_step (total : Nat) (s s' : St) (l : Lbl) (h : Inv total s) (hs : step true s l = some s') : Inv total s' := by
  obtain ⟨h1, h2, h3, h4, h5, h6⟩ := h
  cases l with
  | main =>
    simp only [step] at hs
    cases hsc : s.script with
    | nil => simp [hsc] at hs
    | cons c r =>
      rw [hsc] at hs h5
      cases c with
      | isready => simp only [] at hs; cases hs; constructor <;> simp_all [countGo]
      | position => simp only [] at hs; cases hs; constructor <;> simp_all [countGo]
      | stop =>
        simp only [] at hs; cases hs
        constructor
        · intro hh; cases ht : s.thread <;> simp_all
        · intro hh
          simp only [Bool.or_eq_true, beq_iff_eq] at hh
          cases ht : s.thread with
          | none => simp_all
          | some pc => simp [ht]
        · exact h3
        · simpa using h4
        · simpa [countGo] using h5
        · simpa using h6
      | go b =>
        simp only [] at hs
        cases ht : s.thread with
        | none =>
          simp only [ht] at hs; cases hs
          have := h6 ht
          constructor <;> simp_all [spawn, countGo] <;> omega
        | some pc =>
          cases pc with
          | exited =>
            simp only [ht] at hs; cases hs
            constructor <;> simp_all [spawn, countGo] <;> omega
          | spawned | searching | clearing | printing | printed =>
            simp only [ht, if_true] at hs
            split at hs
            · cases hs; constructor <;> simp_all [countGo] <;> omega
            · simp at hs
  | search =>
    simp only [step] at hs
    cases ht : s.thread with
    | none => simp [ht] at hs
    | some pc =>
      rw [ht] at hs
      cases pc with
      | spawned => simp only [] at hs; cases hs; constructor <;> simp_all
      | searching =>
        simp only [] at hs
        by_cases hf : s.flag = true
        · simp only [hf, Bool.not_true, if_true] at hs
          have hss : s.stopSeen = false := by
            cases hss : s.stopSeen with
            | false => rfl
            | true => have := h2 hss; simp_all
          cases hb : s.budget with
          | none => simp only [hb] at hs; cases hs; constructor <;> simp_all
          | some k =>
            cases k with
            | zero => simp only [hb, if_true] at hs; cases hs; constructor <;> simp_all
            | succ k => simp only [hb] at hs; cases hs; constructor <;> simp_all
        · simp only [Bool.not_eq_true] at hf
          simp only [hf, Bool.not_false, if_true] at hs; cases hs; constructor <;> simp_all
      | clearing => simp only [] at hs; cases hs; constructor <;> simp_all
      | printing => simp only [] at hs; cases hs; constructor <;> simp_all <;> omega
      | printed => simp only [] at hs; cases hs; constructor <;> simp_all
      | exited => simp at hs

theorem inv_run (total : Nat) (s : St) (sched : List Lbl) (h : Inv total s) : Inv total (run true s sched) := by
  induction sched generalizing s with
  | nil => exact h
  | cons l ls ih =>
    simp only [run]
    cases hs : step true s l with
    | none => simpa [hs] using ih s h
    | some s' => simpa [hs] using ih s' (inv_step total s s' l h hs)

/-- the state reached by the fixed protocol from a fresh session under a schedule -/
def reach (script : List Cmd) (sched : List Lbl) : St := run true (init script) sched

theorem reach_inv (script : List Cmd) (sched : List Lbl) : Inv (countGo script) (reach script sched) :=
  inv_run _ _ sched (inv_init script)

/-- **stop is never lost**: under every schedule, a search for which a `stop` has been processed has its flag
    cleared for good and never executes another node -/
theorem stop_never_lost (script : List Cmd) (sched : List Lbl) :
    ((reach script sched).stopSeen = true → (reach script sched).flag = false) ∧ (reach script sched).nodesAfterStop = 0 :=
  ⟨(reach_inv script sched).stopKept, (reach_inv script sched).prompt⟩

/-- …and then the search thread needs only its own next steps to answer: from any state with the flag cleared and
    the thread searching, three search steps print the bestmove (bounded progress; fairness = those steps happen) -/
theorem stop_answers_in_three_steps (s : St) (hf : s.flag = false) (ht : s.thread = some .searching) :
    (run true s [.search, .search, .search]).bestmoves = s.bestmoves + 1 ∧
    (run true s [.search, .search, .search]).thread = some .printed := by
  simp [run, step, ht, hf]

/-- **go is never dropped**: under every schedule, once the previous answer is being printed or is out, a `go` is never
    refused: the input thread either accepts it at once (thread exited) or waits for the thread to exit (`none`: blocked) -/
theorem go_never_dropped (script : List Cmd) (sched : List Lbl) (b : Option Nat) (r : List Cmd)
    (hpc : (reach script sched).thread = some .printing ∨ (reach script sched).thread = some .printed ∨
           (reach script sched).thread = some .exited)
    (hsc : (reach script sched).script = .go b :: r) :
    step true (reach script sched) .main = none ∨
    ∃ s', step true (reach script sched) .main = some s' ∧ s'.refused = (reach script sched).refused ∧
          s'.accepted = (reach script sched).accepted + 1 := by
  have hfl := (reach_inv script sched).flagClear hpc
  generalize reach script sched = s at *
  rcases hpc with h | h | h
  · left; simp [step, hsc, h, hfl]
  · left; simp [step, hsc, h, hfl]
  · right; exact ⟨spawn s r b, by simp [step, hsc, h], by simp [spawn], by simp [spawn]⟩

/-- a blocked `go` is only waiting for the thread's own last steps: two search steps later it is accepted -/
theorem blocked_go_is_accepted (s : St) (b : Option Nat) (r : List Cmd) (hf : s.flag = false)
    (ht : s.thread = some .printing) (hsc : s.script = .go b :: r) :
    (run true s [.search, .search, .main]).accepted = s.accepted + 1 ∧ (run true s [.search, .search, .main]).refused = s.refused := by
  simp [run, step, ht, hf, hsc, spawn]

/-- **one bestmove per go**: in every state reached, every accepted `go` has been answered exactly once except the
    one still being searched; every `go` of the script was accepted, explicitly refused ("Search is already running")
    or is still waiting — none is silently discarded.  In a final state (thread printed / exited) the counts agree. -/
theorem one_bestmove_per_go (script : List Cmd) (sched : List Lbl) :
    (reach script sched).accepted + (reach script sched).refused + countGo (reach script sched).script = countGo script ∧
    (((reach script sched).thread = some .exited ∨ (reach script sched).thread = some .printed ∨
      (reach script sched).thread = none) → (reach script sched).bestmoves = (reach script sched).accepted) := by
  have h := reach_inv script sched
  generalize reach script sched = s at *
  refine ⟨h.gos, ?_⟩
  intro hpc
  have h4 := h.owed
  rcases hpc with hh | hh | hh
  · simpa [hh] using h4
  · simpa [hh] using h4
  · have := h.idle hh; simp [hh] at h4; omega

/-! ### the protocol as it was (before the `fix:` commits): the same model refutes both clauses -/

/-- a `stop` processed before the search thread's entry store is overwritten: the search runs on (3 nodes and counting) -/
theorem old_stop_lost :
    let s := run false (init [.go none, .stop]) [.main, .main, .search, .search, .search, .search]
    s.nodesAfterStop = 3 ∧ s.bestmoves = 0 ∧ s.flag = true := by decide

/-- a `go` processed after `bestmove` was printed but before the thread exited is refused -/
theorem old_go_dropped :
    let s := run false (init [.go (some 0), .go (some 0)]) [.main, .search, .search, .search, .main]
    s.bestmoves = 1 ∧ s.refused = 1 := by decide

/-- the same two schedules under the fixed protocol -/
example : (run true (init [.go none, .stop]) [.main, .main, .search, .search, .search, .search]).bestmoves = 1 := by decide
example : (run true (init [.go (some 0), .go (some 0)]) [.main, .search, .search, .search, .search, .main]).refused = 0 := by decide

end RCE.Props.C10

#print axioms RCE.Props.C10.stop_never_lost
#print axioms RCE.Props.C10.stop_answers_in_three_steps
#print axioms RCE.Props.C10.go_never_dropped
#print axioms RCE.Props.C10.blocked_go_is_accepted
#print axioms RCE.Props.C10.one_bestmove_per_go
#print axioms RCE.Props.C10.old_stop_lost
#print axioms RCE.Props.C10.old_go_dropped
