import RCE.Props.C07legal
import RCE.Proofs.FenPlayed
/-! # C07, last clause — a re-loaded position *is* the played one, except for the undo stack

"… and from then on behaves (legal moves, keys, bookkeeping) identically to the same position reached by play."
`SameNowK b b'`: piece boards, side to move, move number, en-passant file, castling rights, half-move clock and key
are equal — every field except the two history lists.  Writing the FEN of a played position and loading it back gives
such a board (`loaded_equals_played`), and `SameNowK` is preserved by every move (`reload_then_play`), with the same
generated and legal move lists in the same order at every step.  The counters must fit the FEN reader's `u16`
(games shorter than 65,535 plies); taking back moves *past* the load point is not covered and cannot be (the undo stack
is what differs). -/
namespace RCE.Props.C07
open RCE RCE.Proofs.BoardWF RCE.Proofs.Abs RCE.Proofs.FenRoundtrip RCE.Proofs.FenPlayed

/-- any well-formed board with a consistent key and counters that fit a FEN: its FEN text loads to the same board up to history -/
theorem loaded_equals_played (b : Board) (hw : WF b) (hk : b.zkey = b.scratchKey) (hh : b.halfmove < 65536) (hf : b.fullmove < 65536) :
    ∃ b', Board.fromFen? (Rules.render (abs b)) = some b' ∧ SameNowK b b' ∧ WF b' ∧ b'.zkey = b'.scratchKey :=
  loaded_equals_played_wf b hw hk hh hf

/-- what "the same up to history" buys: identical generated moves, legal moves, check status, evaluation -/
theorem same_now_same_behaviour (b b' : Board) (h : SameNow b b') :
    b'.allMoves = b.allMoves ∧ b'.legalMovesPure = b.legalMovesPure ∧ (∀ c, b'.isInCheck c = b.isInCheck c) ∧ b'.evaluate = b.evaluate :=
  ⟨sameNow_allMoves b b' h, sameNow_legalMovesPure b b' h, fun c => sameNow_isInCheck b b' h c, sameNow_evaluate b b' h⟩

/-- after any game from the start position: re-loading the FEN gives the same position, key and move lists -/
theorem reload_after_game (ms : List Ply) (hs : C03.LegalSeq Board.start ms) (hlen : ms.length < 65535) :
    let b := ms.foldl Board.makeMove Board.start
    ∃ b', Board.fromFen? (Rules.render (abs b)) = some b' ∧ SameNow b b' ∧ b'.zkey = b.zkey ∧ b'.allMoves = b.allMoves ∧ b'.legalMovesPure = b.legalMovesPure :=
  RCE.Proofs.FenPlayed.reload_after_game ms hs hlen

/-- … and it stays the same (key included) along any continuation `ns`, which is legal from the one iff from the other -/
theorem reload_then_play (ms ns : List Ply) (hs : C03.LegalSeq Board.start ms) (hlen : ms.length < 65535) :
    let b := ms.foldl Board.makeMove Board.start
    ∃ b', Board.fromFen? (Rules.render (abs b)) = some b' ∧ SameNowK (ns.foldl Board.makeMove b) (ns.foldl Board.makeMove b') ∧
      (C03.LegalSeq b ns → C03.LegalSeq b' ns) :=
  RCE.Proofs.FenPlayed.reload_then_play ms ns hs hlen

end RCE.Props.C07

#print axioms RCE.Props.C07.loaded_equals_played
#print axioms RCE.Props.C07.same_now_same_behaviour
#print axioms RCE.Props.C07.reload_after_game
#print axioms RCE.Props.C07.reload_then_play
