import RCE.Proofs.BoardUndo
/-! # C02 — unmaking a move restores the position exactly

Equality below is structural equality of the whole `Board` value: the fifteen bitboards, side to
move, move number, en-passant file, the undo stack, the repetition record and the key. -/
namespace RCE.Props.C02
open RCE RCE.Proofs.BoardWF RCE.Proofs.BoardUndo

/-- taking back any generated move restores the position exactly -/
theorem unmake_make (b : Board) (m : Ply) (hw : WF b) (hm : m ∈ b.allMoves) :
    (b.makeMove m).unmakeMove? = some b :=
  unmake_make' b m hw hm

/-- the legality probe (make, test, unmake on the live board) leaves the board as it was -/
theorem isLegalMove_pure (b : Board) (m : Ply) (hw : WF b) (hm : m ∈ b.allMoves) :
    (b.isLegalMove m).2 = b :=
  isLegalMove_pure' b m hw hm

/-- asking for the legal moves does not change the position, and the list is the filter one expects -/
theorem legalMoves_pure (b : Board) (hw : WF b) :
    (b.legalMoves).2 = b ∧ (b.legalMoves).1 = b.legalMovesPure :=
  legalMoves_pure' b hw

/-- stack-disciplined sequences: `n` makes followed by `n` take-backs, nested to any depth -/
theorem nested_make_unmake (b : Board) (ms : List Ply) (hw : WF b)
    (hms : ∀ i (h : i < ms.length), ms[i] ∈ ((ms.take i).foldl Board.makeMove b).allMoves) :
    (List.range ms.length).foldl (fun acc _ => acc.unmakeMove) (ms.foldl Board.makeMove b) = b :=
  nested_make_unmake' b ms hw hms

end RCE.Props.C02

#print axioms RCE.Props.C02.unmake_make
#print axioms RCE.Props.C02.isLegalMove_pure
#print axioms RCE.Props.C02.legalMoves_pure
#print axioms RCE.Props.C02.nested_make_unmake
