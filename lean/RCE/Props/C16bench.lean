import RCE.Props.C16
import RCE.Model.Search
/-! # C16, the bench signature

`bench::bench` (src/bench.rs): every position of a fixed list is searched with `Search::new(board, None)` —
no limits of any kind — to `MAXDEPTH`, each from a cleared cache; the node counts are added up and printed.
The only thing that differs between two runs of the subcommand, on any machine and under any load, is what
the clock reads while each search runs.  `bench_total_clock_indep`: the printed total does not depend on it,
for any list of positions, any depth and any family of clocks (one per position, arbitrary functions). -/
namespace RCE.Props.C16
open RCE RCE.Search RCE.Proofs.SearchDefs

/-- the limits of `Search::new(board, None)` set no time limit -/
theorem noLimits_noTimeLimit (turn : Color) (clock : Nat → Nat) :
    NoTimeLimit { limits := ({} : GoLimits).toLimits turn, clock := clock, stopAtPoll := 0, cacheOff := false } := by
  constructor <;> rfl

/-- one position of the bench: searched without limits from the empty cache -/
def benchNodes (b : Board) (depth : Nat) (clock : Nat → Nat) : Nat :=
  (chessSearch b {} (some depth) clock 0 false {}).st.nodes

/-- the node total `bench` prints: position `i` is searched while the clock reads `clocks i` -/
def benchTotal (boards : List Board) (depth : Nat) (clocks : Nat → Nat → Nat) : Nat :=
  ((List.range boards.length).map fun i => benchNodes (boards.getD i Board.start) depth (clocks i)).sum

theorem benchNodes_clock_indep (b : Board) (depth : Nat) (clock clock' : Nat → Nat) :
    benchNodes b depth clock' = benchNodes b depth clock := by
  unfold benchNodes chessSearch
  have h := search_clock_indep (P := Board) (M := Ply)
    { limits := ({} : GoLimits).toLimits b.turn, clock := clock, stopAtPoll := 0, cacheOff := false }
    chessGame b (some depth) {} clock' (noLimits_noTimeLimit b.turn clock)
  exact congrArg (fun r => r.st.nodes) h

/-- the bench total is the same whatever the clocks read during the run: every run prints the same number -/
theorem bench_total_clock_indep (boards : List Board) (depth : Nat) (clocks clocks' : Nat → Nat → Nat) :
    benchTotal boards depth clocks' = benchTotal boards depth clocks := by
  unfold benchTotal
  congr 1
  apply List.map_congr_left
  intro i _
  exact benchNodes_clock_indep _ _ _ _

/-- … and so are the best move and the score of every single bench position -/
theorem bench_result_clock_indep (b : Board) (depth : Nat) (clock clock' : Nat → Nat) :
    chessSearch b {} (some depth) clock' 0 false {} = chessSearch b {} (some depth) clock 0 false {} := by
  unfold chessSearch
  exact search_clock_indep (P := Board) (M := Ply)
    { limits := ({} : GoLimits).toLimits b.turn, clock := clock, stopAtPoll := 0, cacheOff := false }
    chessGame b (some depth) {} clock' (noLimits_noTimeLimit b.turn clock)

end RCE.Props.C16

#print axioms RCE.Props.C16.bench_total_clock_indep
#print axioms RCE.Props.C16.bench_result_clock_indep
