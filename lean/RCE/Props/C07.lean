import RCE.Proofs.FenRoundtrip
/-! # C07 — loading a FEN yields exactly the position the FEN describes

`Rules.render` writes a rules position as FEN text (`Spec/FenRender.lean`: ranks 8→1, run-length
digits, side, castling letters, en-passant square, two counters).  For **every** valid position the
engine's reader (`Board.fromFen?`, the model of `Board::from_fen`) accepts that text and the loaded
board stands for exactly that position; the loaded board is well-formed with a consistent key, so by
C02 / C03 / C04 it behaves from then on like the same position reached by play. -/
namespace RCE.Props.C07
open RCE RCE.Proofs.BoardWF RCE.Proofs.Abs RCE.Proofs.FenRoundtrip

/-- 6-field FEN: placement, side, castling rights, en-passant file, half-move clock, full-move number -/
theorem fen_roundtrip (p : Rules.Pos) (hv : ValidPos p) :
    ∃ b, Board.fromFen? (Rules.render p) = some b ∧ abs b = p :=
  fen_roundtrip' p hv

/-- 4-field FEN: the counters default to 0 and 1 -/
theorem fen_roundtrip4 (p : Rules.Pos) (hv : ValidPos p) :
    ∃ b, Board.fromFen? (render4 p) = some b ∧ abs b = { p with half := 0, full := 1 } :=
  fen_roundtrip4' p hv

/-- a loaded board is well-formed and carries its from-scratch key, provided the described position is consistent
    (rooks on the corners of the rights claimed, the en-passant pawn in place) -/
theorem fromFen_wf (p : Rules.Pos) (hv : ValidPos p) (hc : ConsistentPos p) (b : Board)
    (h : Board.fromFen? (Rules.render p) = some b) : WF b ∧ b.zkey = b.scratchKey :=
  fromFen_wf' p hv hc b h

/-- the start position's FEN loads to the start position (non-vacuity; kernel-evaluated) -/
theorem start_fen : ∃ b, Board.fromFen? "rnbqkbnr/pppppppp/8/8/8/8/PPPPPPPP/RNBQKBNR w KQkq - 0 1".toList = some b ∧
    b.bbs = Board.start.bbs ∧ b.turn = .white ∧ b.rights = Rights.all ∧ b.ep = none := start_fen'

end RCE.Props.C07

#print axioms RCE.Props.C07.fen_roundtrip
#print axioms RCE.Props.C07.fen_roundtrip4
#print axioms RCE.Props.C07.fromFen_wf
#print axioms RCE.Props.C07.start_fen
