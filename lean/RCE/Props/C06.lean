import RCE.Proofs.Sliders
/-! # C06 — attack tables are exact for every square and every occupancy

Statements only (helpers live in `RCE/Proofs/`).  The slider statements quantify over **all**
`occ : UInt64` (2^64 occupancies) and all 64 squares; the spec is "slide by coordinate stepping up to
and including the first occupied square" (`Rules.slideOcc`), which cannot wrap around an edge
because it works on (file, rank) coordinates. -/
namespace RCE.Props.C06
open RCE RCE.Proofs.Sliders

theorem knight_attacks_exact (sq : Nat) (h : sq < 64) :
    Exact (knightAttacks sq) (Rules.knightOff.filterMap fun d => Rules.step sq d.1 d.2) :=
  knight_exact sq h

theorem king_attacks_exact (sq : Nat) (h : sq < 64) :
    Exact (kingAttacks sq) (Rules.kingOff.filterMap fun d => Rules.step sq d.1 d.2) :=
  king_exact sq h

theorem pawn_attacks_exact (white : Bool) (sq : Nat) (h : sq < 64) :
    Exact (pawnAttacks white sq)
      ([(1, Rules.pawnDir (if white then .white else .black)), (-1, Rules.pawnDir (if white then .white else .black))].filterMap
        fun d => Rules.step sq d.1 d.2) :=
  pawn_exact white sq h

end RCE.Props.C06

#print axioms RCE.Props.C06.knight_attacks_exact
#print axioms RCE.Props.C06.king_attacks_exact
#print axioms RCE.Props.C06.pawn_attacks_exact
