import RCE.Proofs.Sliders
/-! # C06 — attack tables are exact for every square and every occupancy

Statements only (helpers live in `RCE/Proofs/`).  The slider statements quantify over **all**
`occ : UInt64` (2^64 occupancies) and all 64 squares; the spec is "slide by coordinate stepping up to
and including the first occupied square" (`Rules.slideOcc`), which cannot wrap around an edge
because it works on (file, rank) coordinates. -/
namespace RCE.Props.C06
open RCE RCE.Proofs.Sliders

/-- rook lookups never hit the index panic and return exactly the sliding squares -/
theorem rook_attacks_exact (sq : Nat) (occ : BB) (h : sq < 64) :
    ∃ a, rookLookup? sq occ = some a ∧ Exact a (specSlider Rules.rookDirs sq occ) :=
  rook_exact sq occ h

theorem bishop_attacks_exact (sq : Nat) (occ : BB) (h : sq < 64) :
    ∃ a, bishopLookup? sq occ = some a ∧ Exact a (specSlider Rules.bishopDirs sq occ) :=
  bishop_exact sq occ h

theorem queen_attacks_exact (sq : Nat) (occ : BB) (h : sq < 64) :
    Exact (queenAttacks sq occ) (specSlider (Rules.rookDirs ++ Rules.bishopDirs) sq occ) :=
  queen_exact sq occ h

theorem knight_attacks_exact (sq : Nat) (h : sq < 64) :
    Exact (knightAttacks sq) (Rules.knightOff.filterMap fun d => Rules.step sq d.1 d.2) :=
  knight_exact sq h

theorem king_attacks_exact (sq : Nat) (h : sq < 64) :
    Exact (kingAttacks sq) (Rules.kingOff.filterMap fun d => Rules.step sq d.1 d.2) :=
  king_exact sq h

theorem pawn_attacks_exact (white : Bool) (sq : Nat) (h : sq < 64) :
    Exact (pawnAttacks white sq)
      ([(1, Rules.pawnDir (if white then .white else .black)), (-1, Rules.pawnDir (if white then .white else .black))].filterMap
        fun d => Rules.step sq d.1 d.2) :=
  pawn_exact white sq h

/-- non-vacuity: a concrete blocked rook -/
example : rookLookup? 0 0x0000000001000104 = some 0x0000000000000106 := by
  -- the kernel cannot evaluate the 4096-entry table fill directly (deep recursion); go through `rook_lookup_eq`.
  -- a1 rook, blockers on c1, a2, a4: attacks b1, c1, a2.
  rw [rook_lookup_eq 0 _ (by decide), rookSlow_fast]; decide +kernel

end RCE.Props.C06

#print axioms RCE.Props.C06.rook_attacks_exact
#print axioms RCE.Props.C06.bishop_attacks_exact
#print axioms RCE.Props.C06.queen_attacks_exact
#print axioms RCE.Props.C06.knight_attacks_exact
#print axioms RCE.Props.C06.king_attacks_exact
#print axioms RCE.Props.C06.pawn_attacks_exact
