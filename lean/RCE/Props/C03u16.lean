import RCE.Props.C03hist
import RCE.Proofs.FenPlayed
/-! # C03 — the two counters and the engine's `u16`

The engine keeps the half-move clock and the full-move number in `u16`; the model counts in `Nat`.  The two agree as
long as no `u16` addition wraps.  This is the statement that bounds when that can happen: along ANY sequence of moves
(legal or not) each counter grows by at most one per move, so at every point of a game of `n` moves from a position
with counters `h`, `f` both are below `2^16` provided `h + n` and `f + n` are; in particular throughout any game from
the start position shorter than 65,535 plies.  (What happens beyond — a FEN with move number 65535 and Black to move —
is outside the model and outside what C03 / C07 claim; see DESIGN §9.) -/
namespace RCE.Props.C03
open RCE RCE.Proofs.FenPlayed

theorem counters_fit_u16 (b : Board) (ms : List Ply) (hh : b.halfmove + ms.length < 65536) (hf : b.fullmove + ms.length < 65536)
    (k : Nat) : ((ms.take k).foldl Board.makeMove b).halfmove < 65536 ∧ ((ms.take k).foldl Board.makeMove b).fullmove < 65536 := by
  have h := game_counters b (ms.take k)
  have hk : (ms.take k).length ≤ ms.length := by rw [List.length_take]; omega
  omega

theorem counters_fit_u16_from_start (ms : List Ply) (hlen : ms.length < 65535) (k : Nat) :
    ((ms.take k).foldl Board.makeMove Board.start).halfmove < 65536 ∧ ((ms.take k).foldl Board.makeMove Board.start).fullmove < 65536 :=
  counters_fit_u16 Board.start ms (by rw [start_halfmove]; omega) (by rw [start_fullmove]; omega) k

end RCE.Props.C03

#print axioms RCE.Props.C03.counters_fit_u16
#print axioms RCE.Props.C03.counters_fit_u16_from_start
