import RCE.Proofs.SearchAbort
/-! # C13 — an interrupted search leaves nothing behind

`Write.afterAbort` records, for every cache insert of a search, whether some abort check of that
search (stop flag found cleared, node budget exhausted, move time or clock budget expired — **not**
the ply cap of 255, which is not an interruption) had already fired when the insert happened.  An
abort inside a node's subtree happens before that node's insert, so "no insert has `afterAbort`"
says that every cached value comes from a completely searched subtree.

The theorems hold for every game, every position, every initial cache, every node budget, every
stop point and every monotone clock. -/
namespace RCE.Props.C13
open RCE.Search RCE.Proofs.SearchDefs RCE.Proofs.SearchAbort

variable {P M : Type} [DecidableEq M]

/-- no cache write of a search happens after the search has been interrupted -/
theorem writes_only_complete (env : Env) (G : Game P M) (p : P) (maxDepth : Option Nat) (tt0 : Table M)
    (hc : MonoClock env) :
    ∀ w ∈ (search env G p maxDepth tt0).st.writes, w.afterAbort = false :=
  writes_only_complete' env G p maxDepth tt0 hc

/-- once an abort check has fired, no further node is visited (the logical part of "stops promptly"):
    searching any subtree from an aborted state returns the dummy 0 and leaves node counter and cache untouched -/
theorem no_nodes_after_abort (env : Env) (G : Game P M) (fuel : Nat) (p : P) (a b : Int) (depth : Nat) (st : St M)
    (hc : MonoClock env) (hs : Interrupted env st) :
    (ab env G fuel p a b depth st).1 = 0 ∧ (ab env G fuel p a b depth st).2.nodes = st.nodes ∧
    (ab env G fuel p a b depth st).2.tt = st.tt ∧ Interrupted env (ab env G fuel p a b depth st).2 :=
  no_nodes_after_abort' env G fuel p a b depth st hc hs

/-- `Interrupted` really is what an abort check establishes (non-vacuity of the hypothesis above) -/
theorem abortCheck_interrupts (env : Env) (st : St M) (hc : MonoClock env) (hp : st.ply < 255)
    (h : (abortCheck env st).1 = true) : Interrupted env (abortCheck env st).2 :=
  abortCheck_interrupts' env st hc hp h

end RCE.Props.C13

#print axioms RCE.Props.C13.writes_only_complete
#print axioms RCE.Props.C13.no_nodes_after_abort
#print axioms RCE.Props.C13.abortCheck_interrupts
