import RCE.Proofs.RefNegamax
namespace RCE.Props.C11
open RCE.Search RCE.Proofs.SearchDefs
variable {P M : Type}
/-- the pruned executable reference used by the differential check equals the plain minimax value -/
theorem ref_root_value_eq (G : Game P M) (p : P) (d : Nat) (he : EvalBoundedFrom G p) (hd : 1 ≤ d)
    (hl : legalMovesOf G p ≠ []) : refRootValue G p d = rootValue G p d := RCE.Proofs.RefNegamax.ref_root_value_eq' G p d he hd hl
/-- and so does the value it assigns to a single root move -/
theorem ref_root_move_value_eq (G : Game P M) (p : P) (d : Nat) (m : M) (he : EvalBoundedFrom G p) (hd : 1 ≤ d)
    (hm : m ∈ legalMovesOf G p) : refRootMoveValue G p d m = rootMoveValue G p d m := RCE.Proofs.RefNegamax.ref_root_move_value_eq' G p d m he hd hm
end RCE.Props.C11
#print axioms RCE.Props.C11.ref_root_value_eq
#print axioms RCE.Props.C11.ref_root_move_value_eq
