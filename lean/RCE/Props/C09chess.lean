import RCE.Proofs.EvalBound
import RCE.Proofs.BoardKey
/-! # C09 (chess instance) — the evaluation hypothesis of the search theorems is discharged

`EvalBoundedFrom chessGame b` — every static evaluation in the look-ahead tree below `b` lies strictly inside
the mate bands — holds for every well-formed position whose promote-everything material (`potential`: each
pawn counted as a queen) is at most 32511 a side. -/
namespace RCE.Props.C09
open RCE RCE.Search RCE.Proofs.SearchDefs RCE.Proofs.BoardWF RCE.Proofs.EvalBound

/-- the hypothesis `EvalBoundedFrom` of the search theorems holds for chess from every well-formed position whose
    promote-everything material is within the bound (16 men a side gives at most 9·900 + 2·500 + 4·300 = 10300) -/
theorem chess_eval_bounded (b : Board) (hw : WF b) (hp : PotentialBounded b) : EvalBoundedFrom chessGame b :=
  chess_eval_bounded' b hw hp

/-- non-vacuity -/
example : PotentialBounded Board.start := by decide +kernel

/-- the starting position: 9·900 + 2·500 + 4·300 a side -/
example : potential Board.start .white = 10300 ∧ potential Board.start .black = 10300 := by decide +kernel

/-- both hypotheses hold of the starting position: the search theorems' `EvalBoundedFrom` premise is
    discharged for every game from the start -/
theorem chess_eval_bounded_start : EvalBoundedFrom chessGame Board.start :=
  chess_eval_bounded Board.start RCE.Proofs.BoardKey.start_ok'.2 (by decide +kernel)

end RCE.Props.C09
#print axioms RCE.Props.C09.chess_eval_bounded
#print axioms RCE.Props.C09.chess_eval_bounded_start
