import RCE.Proofs.EvalBound
import RCE.Proofs.BoardKey
/-! # C09 (chess instance) — the evaluation hypothesis of the search theorems is discharged

`EvalBoundedFrom chessGame b` — every static evaluation in the look-ahead tree below `b` lies strictly inside
the mate bands — holds for every well-formed position whose promote-everything material (`potential`: each
pawn counted as a queen) is at most 32511 a side. -/
namespace RCE.Props.C09
open RCE RCE.Search RCE.Proofs.SearchDefs RCE.Proofs.BoardWF RCE.Proofs.EvalBound

/-- the hypothesis `EvalBoundedFrom` of the search theorems holds for chess from every well-formed position whose
    promote-everything material is within the bound (16 men a side gives at most 9·900 + 2·500 + 4·300 = 10300) -/
theorem chess_eval_bounded (b : Board) (hw : WF b) (hp : PotentialBounded b) : EvalBoundedFrom chessGame b :=
  chess_eval_bounded' b hw hp

/-- non-vacuity -/
example : PotentialBounded Board.start := by decide +kernel

/-- the starting position: 9·900 + 2·500 + 4·300 a side -/
example : potential Board.start .white = 10300 ∧ potential Board.start .black = 10300 := by decide +kernel

/-- both hypotheses hold of the starting position: the search theorems' `EvalBoundedFrom` premise is
    discharged for every game from the start -/
theorem chess_eval_bounded_start : EvalBoundedFrom chessGame Board.start :=
  chess_eval_bounded Board.start RCE.Proofs.BoardKey.start_ok'.2 (by decide +kernel)

/-- the allowance `Search::search` gives the mover comes out of the mover's OWN clock and increment — at most its
    remaining time plus its increment — whatever the opponent's clock and increment say (the timing clause of C09,
    model part: "within the time the limits allow") -/
theorem allowance_within_own_clock (g : GoLimits) (turn : Color) :
    (g.toLimits turn).timer ≤ (match turn with
      | .white => g.wtime.getD 0 + g.winc.getD 0
      | .black => g.btime.getD 0 + g.binc.getD 0) := by
  cases turn <;> simp only [GoLimits.toLimits] <;> omega

/-- a clock limit is noticed at the first consultation that reads the allowance or more (below the ply cap; a node
    budget hit at the same moment interrupts as well); `C13.no_nodes_after_abort` then says no further node is visited -/
theorem clock_expiry_noticed {M : Type} (env : Env) (st : St M) (hp : st.ply ≠ 255)
    (hm : env.limits.movetime = none)
    (htc : env.limits.timeControl = true) (ht : env.limits.timer ≤ env.clock st.clockReads) :
    (limitsExceeded env st).1 = true := by
  unfold limitsExceeded
  simp [hp, hm, htc, ht]
  split
  · split <;> rfl
  · rfl

/-- non-vacuity: `go btime 300 binc 0 wtime 600000 winc 20000` with Black to move allows 15 ms, not 10 s -/
example : (({ btime := some 300, binc := some 0, wtime := some 600000, winc := some 20000 } : GoLimits).toLimits .black).timer = 15 := by decide

end RCE.Props.C09
#print axioms RCE.Props.C09.chess_eval_bounded
#print axioms RCE.Props.C09.chess_eval_bounded_start
#print axioms RCE.Props.C09.allowance_within_own_clock
#print axioms RCE.Props.C09.clock_expiry_noticed
