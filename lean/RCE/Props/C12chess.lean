import RCE.Props.C12
import RCE.Props.C01
import RCE.Props.C03
import RCE.Props.C09
import RCE.Model.Search
import RCE.Proofs.BoardUndo
/-! # C12, the chess instance end to end — a mate in one under the rules of chess is played

`C12.mate_in_one_answered` says that the search answers with a move that mates at once in the search's game interface
whenever one exists; C01 (`legal_exact`, `mate_stalemate_exact`) and C03 (`make_refines`, `make_legal`) carry both the
hypothesis and the conclusion to the rules spec. -/
namespace RCE.Props.C12
open RCE RCE.Search RCE.Proofs.SearchDefs RCE.Proofs.SearchMate RCE.Proofs.SearchMateOne RCE.Proofs.Abs RCE.Proofs.BoardWF

/-- a legal move of the model mates at once exactly when, under the rules of chess, the position after it is checkmate -/
theorem chess_mates_iff (b : Board) (hl : Legal b) (m : Ply) (hm : m ∈ b.legalMovesPure) :
    Mates chessGame b m ↔ Rules.isCheckmate (Rules.apply (abs b) (absMove m)) = true := by
  have hl' : Legal (b.makeMove m) := C03.make_legal b m hl hm
  have hgen : m ∈ b.allMoves := C03.legal_is_generated b m hm
  have hpure := (RCE.Proofs.BoardUndo.legalMoves_pure' (b.makeMove m) hl'.wf).2
  have hms := (C01.mate_stalemate_exact (b.makeMove m) hl').1
  rw [C03.make_refines b m hl hgen, hpure] at hms
  rw [← hms]
  have hplay : chessGame.play b m = b.makeMove m := rfl
  have hchk : chessGame.inCheck (b.makeMove m) = (b.makeMove m).isInCheck (b.makeMove m).turn := rfl
  unfold Mates Mated
  rw [hplay, C09.chess_legalMovesOf, C09.chess_legalMovesOf, hchk]
  constructor
  · intro h
    rw [h.2.1, h.2.2]; rfl
  · intro h
    rw [Bool.and_eq_true] at h
    exact ⟨hm, List.isEmpty_iff.mp h.1, h.2⟩

/-- every move legal under the rules of chess is the image of a legal move of the model -/
theorem chess_spec_move_has_model_move (b : Board) (hl : Legal b) (mv : Rules.Move)
    (hmv : mv ∈ Rules.legalMoves (abs b)) : ∃ m ∈ b.legalMovesPure, absMove m = mv := by
  have hpure := (RCE.Proofs.BoardUndo.legalMoves_pure' b hl.wf).2
  have hex := (C01.legal_exact b hl).1
  have h := hex.mem_iff.mpr hmv
  rw [hpure] at h
  obtain ⟨m, hm, he⟩ := List.mem_map.mp h
  exact ⟨m, hm, he⟩

open RCE.Proofs.EvalBound in
/-- in a legal-game position (material within the bound) in which the rules of chess give a mate in one, every `go` that
    completes an iteration — under every limit, stop point and monotone clock, cache on, from any cache satisfying the
    invariant — answers with a move that is legal under the rules of chess and after which the position is checkmate
    (key / draw hypotheses as in `mate_in_one_played`) -/
theorem chess_mate_in_one_by_the_rules (b : Board) (hl : Legal b) (hp : PotentialBounded b) (g : GoLimits)
    (maxDepth : Option Nat) (clock : Nat → Nat) (hc : ∀ i j, i ≤ j → clock i ≤ clock j) (stopAtPoll : Nat)
    (tt0 : Search.Table Ply)
    (hk : KeyMate chessGame) (hK : MatedKeysFresh chessGame b) (hD : NoDrawAtMate chessGame b)
    (hinv : MateOneInv chessGame b tt0)
    (hex : ∃ mv ∈ Rules.legalMoves (abs b), Rules.isCheckmate (Rules.apply (abs b) mv) = true)
    (hdone : (chessSearch b g maxDepth clock stopAtPoll false tt0).infos ≠ []) :
    ∃ m, (chessSearch b g maxDepth clock stopAtPoll false tt0).best = some m ∧
         absMove m ∈ Rules.legalMoves (abs b) ∧
         Rules.isCheckmate (Rules.apply (abs b) (absMove m)) = true := by
  obtain ⟨mv, hmv, hmate⟩ := hex
  obtain ⟨m0, hm0, he0⟩ := chess_spec_move_has_model_move b hl mv hmv
  have hex' : ∃ m, Mates chessGame b m :=
    ⟨m0, (chess_mates_iff b hl m0 hm0).mpr (by rw [he0]; exact hmate)⟩
  obtain ⟨m, hb, hmates⟩ := mate_in_one_answered
    { limits := g.toLimits b.turn, clock := clock, stopAtPoll := stopAtPoll, cacheOff := false } chessGame b maxDepth tt0
    hc rfl (C09.chess_eval_bounded b hl.wf hp) hk hK hD (chess_orderScoresOK b) hex' hinv hdone
  have hmem : m ∈ b.legalMovesPure := by
    have := hmates.1
    rw [C09.chess_legalMovesOf] at this; exact this
  refine ⟨m, hb, ?_, (chess_mates_iff b hl m hmem).mp hmates⟩
  have hpure := (RCE.Proofs.BoardUndo.legalMoves_pure' b hl.wf).2
  have hexact := (C01.legal_exact b hl).1
  apply hexact.mem_iff.mp
  rw [hpure]; exact List.mem_map_of_mem hmem

end RCE.Props.C12

#print axioms RCE.Props.C12.chess_mates_iff
#print axioms RCE.Props.C12.chess_mate_in_one_by_the_rules
