import RCE.Props.C11
import RCE.Props.C09chess
import RCE.Proofs.EvalBound
import RCE.Proofs.BoardKey
/-! # C11 for chess — the evaluation-range hypothesis discharged

`ab_eq_negamax` is stated for an abstract game under `EvalBoundedFrom` (static evaluations below the mate band, so that
negation never saturates).  For the chess instance the hypothesis holds from every well-formed position whose
promote-everything material is within the bound (`chess_eval_bounded`), and that bound is inherited by every position a
game can reach; so the theorem applies, unconditionally, to every position of every game from the start position. -/
namespace RCE.Props.C11
open RCE RCE.Search RCE.Proofs.SearchDefs RCE.Proofs.EvalBound RCE.Proofs.BoardWF

/-- chess, any well-formed position within the material bound: root score and chosen-move value are the plain minimax value -/
theorem chess_ab_eq_negamax (env : Env) (b : Board) (d : Nat) (tt0 : Table Ply) (hw : WF b) (hp : PotentialBounded b)
    (hu : Unlimited env) (hoff : env.cacheOff = true) (hd : 1 ≤ d ∧ d ≤ 255) (hl : legalMovesOf chessGame b ≠ []) :
    let r := search env chessGame b (some d) tt0
    r.st.bestScore = some (rootValue chessGame b d) ∧
    ∃ m, r.best = some m ∧ m ∈ legalMovesOf chessGame b ∧ rootMoveValue chessGame b d m = rootValue chessGame b d :=
  ab_eq_negamax env chessGame b d tt0 hu hoff (RCE.Props.C09.chess_eval_bounded b hw hp) hd hl

/-- every position reachable by generated moves from the start position (a superset of the positions of legal games) -/
theorem chess_ab_eq_negamax_in_every_game (env : Env) (q : Board) (d : Nat) (tt0 : Table Ply)
    (hr : Reach chessGame Board.start q)
    (hu : Unlimited env) (hoff : env.cacheOff = true) (hd : 1 ≤ d ∧ d ≤ 255) (hl : legalMovesOf chessGame q ≠ []) :
    let r := search env chessGame q (some d) tt0
    r.st.bestScore = some (rootValue chessGame q d) ∧
    ∃ m, r.best = some m ∧ m ∈ legalMovesOf chessGame q ∧ rootMoveValue chessGame q d m = rootValue chessGame q d := by
  obtain ⟨wq, p1, p2⟩ := reach_inv Board.start RCE.Proofs.BoardKey.start_ok'.2 q hr
  have hs : PotentialBounded Board.start := by decide +kernel
  exact chess_ab_eq_negamax env q d tt0 wq ⟨Nat.le_trans p1 hs.1, Nat.le_trans p2 hs.2⟩ hu hoff hd hl

end RCE.Props.C11

#print axioms RCE.Props.C11.chess_ab_eq_negamax
#print axioms RCE.Props.C11.chess_ab_eq_negamax_in_every_game
