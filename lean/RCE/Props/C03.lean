import RCE.Proofs.Refine
/-! # C03 — game-state bookkeeping follows the rules along any game

`abs b` is the rules position a board stands for (placement, side to move, the four castling rights,
the en-passant file, half-move clock, full-move number); `Rules.apply` is the textbook state
machine (`Spec/Rules.lean`: rights lost exactly when king or rook leaves / the rook is captured on
its corner and never regained, en-passant file exactly after a double step, clock reset on pawn
move or capture else +1, move number +1 after Black).  The refinement is proved for **every** legal
position and **every** legal move, hence by induction for legal move sequences of any length.
(`u16` wrap-around of the two counters is outside the model: they are `Nat`; a game cannot legally
reach 65535.) -/
namespace RCE.Props.C03
open RCE RCE.Proofs.BoardWF RCE.Proofs.Abs RCE.Proofs.Refine

/-- one generated (pseudo-legal) move from a legal-game position: the new board stands for the rules' successor position -/
theorem make_refines (b : Board) (m : Ply) (hl : Legal b) (hm : m ∈ b.allMoves) :
    abs (b.makeMove m) = Rules.apply (abs b) (absMove m) :=
  make_refines' b m hl hm

/-- a legal move leads to a legal-game position again -/
theorem make_legal (b : Board) (m : Ply) (hl : Legal b) (hm : m ∈ b.legalMovesPure) : Legal (b.makeMove m) :=
  make_legal' b m hl hm

theorem legal_is_generated (b : Board) (m : Ply) (hm : m ∈ b.legalMovesPure) : m ∈ b.allMoves := by
  unfold Board.legalMovesPure at hm; exact (List.mem_filter.mp hm).1

/-- a sequence of moves each legal where it is played -/
def LegalSeq : Board → List Ply → Prop
  | _, [] => True
  | b, m :: ms => m ∈ b.legalMovesPure ∧ LegalSeq (b.makeMove m) ms

/-- any legal game, of any length -/
theorem game_refines (b : Board) (ms : List Ply) (hl : Legal b) (hs : LegalSeq b ms) :
    abs (ms.foldl Board.makeMove b) = (ms.map absMove).foldl Rules.apply (abs b) ∧ Legal (ms.foldl Board.makeMove b) := by
  induction ms generalizing b with
  | nil => exact ⟨rfl, hl⟩
  | cons m ms ih =>
    have h1 := make_refines b m hl (legal_is_generated b m hs.1)
    have h2 := make_legal b m hl hs.1
    have := ih (b.makeMove m) h2 hs.2
    simp only [List.foldl_cons, List.map_cons]
    rw [← h1]; exact this

/-- the repetition record is exactly the list of keys of the earlier positions of the game, most recent first -/
theorem repetition_record (b : Board) (ms : List Ply) :
    (ms.foldl Board.makeMove b).posHist =
      ((List.range ms.length).map fun i => ((ms.take i).foldl Board.makeMove b).zkey).reverse ++ b.posHist :=
  repetition_record' b ms

/-- the start position is a legal-game position (non-vacuity) -/
theorem start_legal : Legal Board.start := start_legal'

end RCE.Props.C03

#print axioms RCE.Props.C03.make_refines
#print axioms RCE.Props.C03.make_legal
#print axioms RCE.Props.C03.game_refines
#print axioms RCE.Props.C03.repetition_record
#print axioms RCE.Props.C03.start_legal
