import RCE.Proofs.Perft
/-! # C03, read along the history — the property's own wording

"each of the four castling rights … never regained", "the en-passant file (present exactly on the ply after a double
pawn push)": corollaries of `game_refines` and of the rules spec's `apply`, stated over the model's games. -/
namespace RCE.Props.C03
open RCE RCE.Proofs.BoardWF RCE.Proofs.Abs

/-- along any legal game a castling right that is off stays off -/
theorem rights_never_regained (b : Board) (ms : List Ply) (hl : Legal b) (hs : LegalSeq b ms) :
    let p := abs b; let q := abs (ms.foldl Board.makeMove b)
    (q.wk = true → p.wk = true) ∧ (q.wq = true → p.wq = true) ∧ (q.bk = true → p.bk = true) ∧ (q.bq = true → p.bq = true) :=
  RCE.Proofs.Perft.rights_never_regained b ms hl hs

/-- rules level: after a move from an occupied square the en-passant file is set exactly when a pawn made a double step, and it is that pawn's file -/
theorem ep_iff_double_push (p : Rules.Pos) (m : Rules.Move) (f : Nat) (hsrc : p.at m.src ≠ none) :
    (Rules.apply p m).ep = some f ↔
      ∃ pc, p.at m.src = some pc ∧ pc.kind = .pawn ∧ (m.dst = m.src + 16 ∨ m.dst + 16 = m.src) ∧ f = m.src % 8 :=
  RCE.Proofs.Perft.ep_iff_double_push p m f hsrc

/-- model level: an en-passant file after a legal move means a pawn just made a double step on that file -/
theorem ep_only_after_double_push (b : Board) (m : Ply) (hl : Legal b) (hm : m ∈ b.legalMovesPure) (f : Nat) :
    (b.makeMove m).ep = some f →
      ∃ pc, (abs b).at m.start.idx = some pc ∧ pc.kind = .pawn ∧
        (m.dest.idx = m.start.idx + 16 ∨ m.dest.idx + 16 = m.start.idx) ∧ f = m.start.idx % 8 :=
  RCE.Proofs.Perft.ep_model b m hl hm f

end RCE.Props.C03

#print axioms RCE.Props.C03.rights_never_regained
#print axioms RCE.Props.C03.ep_iff_double_push
#print axioms RCE.Props.C03.ep_only_after_double_push
