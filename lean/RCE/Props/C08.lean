import RCE.Model.Uci
import RCE.Proofs.MoveGen
import RCE.Proofs.Refine
import RCE.Proofs.BoardUndo
/-! # C08 — the UCI position command sets up exactly the described game, or nothing

`execute s (.position kind moves)` is what the command loop does for a parsed `position` command;
`loadPosition` applies the moves on a scratch board and the session board is replaced only when every
move was found.  Move strings are looked up among the legal moves by their coordinate notation. -/
namespace RCE.Props.C08
open RCE RCE.Uci RCE.Proofs.BoardWF RCE.Proofs.Abs

/-- apply move strings one after the other, as `load_position` does -/
def playMoves (b : Board) (ms : List String) : Except String Board :=
  ms.foldlM (fun (b : Board) (mv : String) =>
    match (b.findMove mv).1 with
    | some m => .ok (b.makeMove m)
    | none => .error ("Invalid move: " ++ mv)) b

/-- the start board of a position command -/
def startOf : PositionKind → Option Board
  | .startpos => some Board.start
  | .fen f => Board.fromFen? f.toList

theorem loadPosition_eq (k : PositionKind) (ms : Option (List String)) :
    loadPosition k ms = (startOf k).map fun b0 => playMoves b0 (ms.getD []) := by
  unfold loadPosition startOf playMoves
  cases k with
  | startpos => rfl
  | fen f =>
    simp only []
    cases Board.fromFen? f.toList <;> rfl

/-- **all or nothing**: if any move is refused the session position stays exactly as it was -/
theorem position_atomic (s : Session) (k : PositionKind) (ms : Option (List String)) (e : String)
    (h : loadPosition k ms = some (.error e)) : (execute s (.position k ms)).board = s.board := by
  simp [execute, h]

/-- **independent of anything sent earlier**: on success the new session position is a function of the command alone -/
theorem position_fresh (s s' : Session) (k : PositionKind) (ms : Option (List String)) (b : Board)
    (h : loadPosition k ms = some (.ok b)) :
    (execute s (.position k ms)).board = b ∧ (execute s' (.position k ms)).board = b := by
  simp [execute, h]

/-- a move string is accepted **only if** it is the notation of a legal move, and the move made is that legal move -/
theorem findMove_sound (b : Board) (str : String) (m : Ply) (h : (b.findMove str).1 = some m) :
    m ∈ (b.legalMoves).1 ∧ m.notation = str := by
  unfold Board.findMove at h
  simp only [] at h
  have := List.find?_some h
  have hm := List.mem_of_find?_eq_some h
  exact ⟨hm, by simpa using this⟩

/-- a move string is accepted **if** it is the notation of some legal move -/
theorem findMove_complete (b : Board) (str : String) (m : Ply) (hm : m ∈ (b.legalMoves).1) (hn : m.notation = str) :
    ∃ m', (b.findMove str).1 = some m' := by
  unfold Board.findMove
  simp only []
  cases hf : List.find? (fun m => m.notation == str) (b.legalMoves).1 with
  | some m' => exact ⟨m', rfl⟩
  | none =>
    have := List.find?_eq_none.mp hf m hm
    simp [hn] at this

/-- the game a successful position command sets up: each string names a legal move of the position before it
    and the result is the board after making those moves in order -/
theorem playMoves_spec (b : Board) (ms : List String) (b' : Board) (h : playMoves b ms = .ok b') :
    ∃ plies : List Ply, plies.length = ms.length ∧ b' = plies.foldl Board.makeMove b ∧
      ∀ i (hi : i < plies.length), ∃ hj : i < ms.length,
        plies[i] ∈ (((plies.take i).foldl Board.makeMove b).legalMoves).1 ∧ plies[i].notation = ms[i] := by
  induction ms generalizing b with
  | nil =>
    simp only [playMoves, List.foldlM_nil] at h
    cases h
    exact ⟨[], rfl, rfl, by intro i hi; simp at hi⟩
  | cons mv ms ih =>
    unfold playMoves at h
    simp only [List.foldlM_cons] at h
    cases hf : (b.findMove mv).1 with
    | none => simp [hf, bind, Except.bind] at h
    | some m =>
      simp only [hf, bind, Except.bind] at h
      obtain ⟨plies, hl, hb, hall⟩ := ih (b.makeMove m) h
      obtain ⟨hm1, hm2⟩ := findMove_sound b mv m hf
      refine ⟨m :: plies, by simp [hl], by simp [hb], ?_⟩
      intro i hi
      cases i with
      | zero => exact ⟨by simp, by simpa using hm1, by simpa using hm2⟩
      | succ j =>
        have hj : j < plies.length := by simpa using hi
        obtain ⟨hj', h1, h2⟩ := hall j hj
        exact ⟨by simp; omega, by simpa using h1, by simpa using h2⟩

theorem nodup_map_inj {α β : Type} (f : α → β) : ∀ (l : List α), (l.map f).Nodup → ∀ a b, a ∈ l → b ∈ l → f a = f b → a = b
  | [], _, _, _, ha, _, _ => by simp at ha
  | x :: xs, hnd, a, b, ha, hb, hab => by
    simp only [List.map_cons, List.nodup_cons, List.mem_map, not_exists, not_and] at hnd
    rcases List.mem_cons.mp ha with rfl | ha' <;> rcases List.mem_cons.mp hb with rfl | hb'
    · rfl
    · exact absurd hab.symm (hnd.1 b hb')
    · exact absurd hab (hnd.1 a ha')
    · exact nodup_map_inj f xs hnd.2 a b ha' hb' hab

/-- in a legal-game position the notation identifies the legal move: two legal moves with the same
    (from, to, promotion piece) are the same move (from C01: the legal list has no duplicate triples) -/
theorem legal_move_unique (b : Board) (hl : Legal b) (m m' : Ply)
    (hm : m ∈ (b.legalMoves).1) (hm' : m' ∈ (b.legalMoves).1) (h : absMove m = absMove m') : m = m' := by
  have hnd := (RCE.Proofs.MoveGen.legal_exact_of (fun b m hl hm => RCE.Proofs.Refine.make_refines' b m hl hm)
    RCE.Proofs.MoveGen.makeKeeps b hl).2
  exact nodup_map_inj _ _ hnd m m' hm hm' h

end RCE.Props.C08

#print axioms RCE.Props.C08.position_atomic
#print axioms RCE.Props.C08.position_fresh
#print axioms RCE.Props.C08.findMove_sound
#print axioms RCE.Props.C08.findMove_complete
#print axioms RCE.Props.C08.playMoves_spec
#print axioms RCE.Props.C08.legal_move_unique
