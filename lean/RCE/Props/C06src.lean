import RCE.Props.C06
import RCE.Proofs.TranslatedChk
import RCE.Proofs.SlowSrc
/-! # C06, stated about definitions TRANSLATED FROM THE SOURCE on this run

`tools/gen_translate.py` turns the Rust expressions of `Knight/King/Pawn::init_attacks`, `init_rays`,
`Bitboard::shift_east/shift_west/trim_edges`, `Rook/Bishop::init_masks` into `RCE.Gen.Tr.*` (operator meanings
taken from the `impl`s in `bitboard.rs`, which it checks).  The theorems below are about those regenerated
definitions: the leaper tables the *source text* computes are exact for all 64 squares (both colours for pawns)
and none of the Rust arithmetic in them can overflow; the ray table and the slider masks the source computes are
the model's (on which `rook/bishop/queen_attacks_exact` rest).  Hypothesis `…Avail = true`: the translator
understood the function's shape on this run (recorded in the evidence; `false` only after a rewrite). -/
namespace RCE.Props.C06
open RCE RCE.Gen RCE.Proofs.Sliders RCE.Proofs.TranslatedChk

private theorem all_at {p : Nat → Bool} {n : Nat} (h : (List.range n).all p = true) (i : Nat) (hi : i < n) : p i = true :=
  forall_lt_of_all h i hi

/-- the knight table the source computes is exact on every square, and its arithmetic cannot overflow -/
theorem knight_source_exact (ha : Tr.knightInitAvail = true) (sq : Nat) (h : sq < 64) :
    Exact (Tr.knightInit sq) (Rules.knightOff.filterMap fun d => Rules.step sq d.1 d.2) ∧ Tr.knightInitOK sq = true := by
  have := all_at (knight_src ha) sq h
  simp only [Bool.and_eq_true, beq_iff_eq] at this
  exact ⟨this.1 ▸ knight_attacks_exact sq h, this.2⟩

theorem king_source_exact (ha : Tr.kingInitAvail = true) (sq : Nat) (h : sq < 64) :
    Exact (Tr.kingInit sq) (Rules.kingOff.filterMap fun d => Rules.step sq d.1 d.2) ∧ Tr.kingInitOK sq = true := by
  have := all_at (king_src ha) sq h
  simp only [Bool.and_eq_true, beq_iff_eq] at this
  exact ⟨this.1 ▸ king_attacks_exact sq h, this.2⟩

theorem pawn_source_exact (ha : Tr.pawnInitAvail = true) (white : Bool) (sq : Nat) (h : sq < 64) :
    Exact (Tr.pawnInit white sq)
      ([(1, Rules.pawnDir (if white then .white else .black)), (-1, Rules.pawnDir (if white then .white else .black))].filterMap
        fun d => Rules.step sq d.1 d.2) ∧ Tr.pawnInitOK white sq = true := by
  have h0 := pawn_src ha
  simp only [List.all_cons, List.all_nil, Bool.and_true, Bool.and_eq_true] at h0
  have := all_at (by cases white; exact h0.2; exact h0.1 :
    (List.range 64).all (fun i => Tr.pawnInit white i == pawnAttacks white i && Tr.pawnInitOK white i) = true) sq h
  simp only [Bool.and_eq_true, beq_iff_eq] at this
  exact ⟨this.1 ▸ pawn_attacks_exact white sq h, this.2⟩

/-- the ray table the source computes is the model's, entry by entry, without overflow -/
theorem ray_source_eq (ha : Tr.rayInitAvail = true) (sq dir : Nat) (h : sq < 64) (hd : dir < 8) :
    Tr.rayInit sq dir = ray sq dir ∧ Tr.rayInitOK sq dir = true := by
  have := all_at (all_at (ray_src ha) sq h) dir hd
  simpa only [Bool.and_eq_true, beq_iff_eq] using this

theorem rook_mask_source_eq (ha : Tr.rookMaskInitAvail = true) (sq : Nat) (h : sq < 64) :
    Tr.rookMaskInit sq = rookMask sq := by
  have := all_at (rook_mask_src ha) sq h
  simp only [Bool.and_eq_true, beq_iff_eq] at this
  exact this.1

theorem bishop_mask_source_eq (ha : Tr.bishopMaskInitAvail = true) (sq : Nat) (h : sq < 64) :
    Tr.bishopMaskInit sq = bishopMask sq := by
  have := all_at (bishop_mask_src ha) sq h
  simp only [Bool.and_eq_true, beq_iff_eq] at this
  exact this.1

end RCE.Props.C06

#print axioms RCE.Props.C06.knight_source_exact
#print axioms RCE.Props.C06.king_source_exact
#print axioms RCE.Props.C06.pawn_source_exact
#print axioms RCE.Props.C06.ray_source_eq
#print axioms RCE.Props.C06.rook_mask_source_eq
#print axioms RCE.Props.C06.bishop_mask_source_eq

namespace RCE.Props.C06
open RCE RCE.Gen

/-- the slow rook walk the source text describes (which ray guards, which is scanned, scan direction, which is cut) is the model's,
    for every square and EVERY occupancy, and the square index it hands to the ray table is always on the board -/
theorem rook_slow_source_eq (ha : Tr.rookSlowAvail = true) (hr : Tr.rayInitAvail = true) (sq : Nat) (h : sq < 64) (occ : BB) :
    Tr.rookSlow sq occ = rookSlow sq occ ∧ Tr.rookSlowOK sq occ = true :=
  RCE.Proofs.SlowSrc.rook_slow_src ha hr sq h occ

theorem bishop_slow_source_eq (ha : Tr.bishopSlowAvail = true) (hr : Tr.rayInitAvail = true) (sq : Nat) (h : sq < 64) (occ : BB) :
    Tr.bishopSlow sq occ = bishopSlow sq occ ∧ Tr.bishopSlowOK sq occ = true :=
  RCE.Proofs.SlowSrc.bishop_slow_src ha hr sq h occ

end RCE.Props.C06

#print axioms RCE.Props.C06.rook_slow_source_eq
#print axioms RCE.Props.C06.bishop_slow_source_eq

namespace RCE.Props.C06
open RCE RCE.Gen

/-- `Bitboard::shift_east / shift_west / trim_edges` as the source text defines them are the model's, for every board (and count) -/
theorem shift_east_source_eq (ha : Tr.shiftEastAvail = true) (b : BB) (n : Nat) : Tr.shiftEast b n = shiftEast b n :=
  RCE.Proofs.TranslatedChk.shiftEast_src ha b n
theorem shift_west_source_eq (ha : Tr.shiftWestAvail = true) (b : BB) (n : Nat) : Tr.shiftWest b n = shiftWest b n :=
  RCE.Proofs.TranslatedChk.shiftWest_src ha b n
theorem trim_edges_source_eq (ha : Tr.trimEdgesAvail = true) (b : BB) : Tr.trimEdges b = trimEdges b :=
  RCE.Proofs.TranslatedChk.trimEdges_src ha b

end RCE.Props.C06

#print axioms RCE.Props.C06.shift_east_source_eq
#print axioms RCE.Props.C06.shift_west_source_eq
#print axioms RCE.Props.C06.trim_edges_source_eq

namespace RCE.Props.C06
open RCE RCE.Gen

/-- the magic table of a square filled from the TRANSLATED slow walk over the TRANSLATED mask (with the regenerated magic and
    index width) is the model's table for that square — so `rook_attacks_exact` / `bishop_attacks_exact` speak about tables whose
    contents come from the source text; what remains hand-modelled on the slider path is `get_blockers_from_index`, the magic
    index arithmetic, the fill loop and the lookup -/
theorem rook_fill_source_eq (ha : Tr.rookSlowAvail = true) (hr : Tr.rayInitAvail = true) (hm : Tr.rookMaskInitAvail = true)
    (sq : Nat) (h : sq < 64) :
    fillTable rookTableSize (rookBitsAt sq) (rookMagic sq) (Tr.rookMaskInit sq) (Tr.rookSlow sq)
      = fillTable rookTableSize (rookBitsAt sq) (rookMagic sq) (rookMask sq) (rookSlow sq) := by
  have h1 : Tr.rookSlow sq = rookSlow sq := funext fun bl => (rook_slow_source_eq ha hr sq h bl).1
  rw [rook_mask_source_eq hm sq h, h1]

theorem bishop_fill_source_eq (ha : Tr.bishopSlowAvail = true) (hr : Tr.rayInitAvail = true) (hm : Tr.bishopMaskInitAvail = true)
    (sq : Nat) (h : sq < 64) :
    fillTable bishopTableSize (bishopBitsAt sq) (bishopMagic sq) (Tr.bishopMaskInit sq) (Tr.bishopSlow sq)
      = fillTable bishopTableSize (bishopBitsAt sq) (bishopMagic sq) (bishopMask sq) (bishopSlow sq) := by
  have h1 : Tr.bishopSlow sq = bishopSlow sq := funext fun bl => (bishop_slow_source_eq ha hr sq h bl).1
  rw [bishop_mask_source_eq hm sq h, h1]

end RCE.Props.C06

#print axioms RCE.Props.C06.rook_fill_source_eq
#print axioms RCE.Props.C06.bishop_fill_source_eq
