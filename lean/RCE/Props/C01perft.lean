import RCE.Proofs.Perft
/-! # C01, the whole game tree — perft exactness

`legal_exact` (C01) compares one position's move list with the rules; `make_refines` / `make_legal` (C03) carry a
position across one move.  Together, by induction on the depth: the engine's entire legal-move tree below **any**
legal-game position has, at **every** depth, exactly as many leaves as the rules' tree — the quantity the suite's
perft tests pin for ~40 (position, depth) pairs is exact for all of them. -/
namespace RCE.Props.C01
open RCE RCE.Proofs.BoardWF RCE.Proofs.Abs

/-- the model's `perft` (leaves of the legal-move tree to depth `d`) equals the rules spec's, for every legal-game position and every depth -/
theorem perft_exact (b : Board) (hl : Legal b) (d : Nat) : b.perft d = Rules.perft (abs b) d :=
  RCE.Proofs.Perft.perft_exact b hl d

/-- non-vacuity: the start position, every depth -/
theorem perft_start (d : Nat) : Board.start.perft d = Rules.perft (abs Board.start) d :=
  RCE.Proofs.Perft.perft_start d

end RCE.Props.C01

#print axioms RCE.Props.C01.perft_exact
#print axioms RCE.Props.C01.perft_start
