import RCE.Proofs.EvalSym
/-! # C17 — evaluation is colour-symmetric

For **all** boards (any twelve bitboards, any side to move):
* the evaluation of the colour-mirrored position (ranks flipped, colours and side to move swapped)
  equals the evaluation of the position — with no side condition, because both compute the same
  sequence of saturating `i16` operations on the same piece counts;
* the evaluation with the other side to move is the negation — under `MaterialBounded` (each side's
  material ≤ 32767 centipawns, true of every position with ≤ 16 men a side up to 9 queens …),
  which is needed: `saturation_breaks_antisymmetry` exhibits a board where it fails without it. -/
namespace RCE.Props.C17
open RCE RCE.Proofs.EvalSym

theorem eval_mirror (b : Board) : (mirrorBoard b).evaluate = b.evaluate := eval_mirror' b

theorem eval_swap (b : Board) (h : MaterialBounded b) : (swapTurn b).evaluate = - b.evaluate := eval_swap' b h

theorem eval_range (b : Board) (h : MaterialBounded b) : -32767 ≤ b.evaluate ∧ b.evaluate ≤ 32767 := eval_range' b h

/-- the start position satisfies the hypothesis (non-vacuity) -/
example : MaterialBounded Board.start := by decide +kernel

/-- 36 white queens and a rook against a bare board (32900 cp): `evaluate` saturates at 32767 but the swapped twin gives −32768 -/
theorem saturation_breaks_antisymmetry :
    ∃ b : Board, (swapTurn b).evaluate ≠ - b.evaluate := saturation_witness

end RCE.Props.C17

#print axioms RCE.Props.C17.eval_mirror
#print axioms RCE.Props.C17.eval_swap
#print axioms RCE.Props.C17.eval_range
#print axioms RCE.Props.C17.saturation_breaks_antisymmetry
