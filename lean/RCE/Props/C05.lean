import RCE.Proofs.KeyParts
/-! # C05 — different positions get different keys

The full statement ("any two distinct positions have different 64-bit keys") is **false for any
64-bit key by counting** (there are far more than 2^64 positions); it is kept visible as
`C05_statement` and is *not* claimed.  What is proved, over the Zobrist table regenerated from the
implementation on every run and for **all** positions: every component that matters for play is
hashed, and hashed with its own word — two positions that differ in exactly one component (the
content of one square, the side to move, one castling right, the en-passant file) have different
keys.  The table part of the proof is a kernel evaluation: all 781 words non-zero and pairwise
distinct (305,290 comparisons). -/
namespace RCE.Props.C05
open RCE RCE.Proofs.ZobristTable RCE.Proofs.KeyParts

/-- the unprovable full statement, for the record -/
def C05_statement : Prop :=
  ∀ pa pa' r r' ep ep' t t', (pa, r, ep, t) ≠ (pa', r', ep', t') → keyOfParts pa r ep t ≠ keyOfParts pa' r' ep' t'

/-- the key the model computes from scratch is `keyOfParts` of the board's components -/
theorem scratchKey_is_keyOfParts (b : Board) :
    b.scratchKey = keyOfParts (fun i => b.pieceAt (Square.ofIdx i)) b.rights b.ep b.turn := scratchKey_eq b

/-- changing the content of exactly one square changes the key -/
theorem single_square (pa pa' : Nat → Option Kind) (r : Rights) (ep : Option Nat) (t : Color) (sq : Nat)
    (hsq : sq < 64) (hsame : ∀ i, i ≠ sq → pa i = pa' i) (hdiff : pa sq ≠ pa' sq) :
    keyOfParts pa r ep t ≠ keyOfParts pa' r ep t := by
  intro h
  unfold keyOfParts at h
  have h1 := xor_cancel_right (xor_cancel_right (xor_cancel_right h))
  have hs := xorSum_single (sqWord pa) (sqWord pa') sq (List.range 64) List.nodup_range
    (by intro i hi; unfold sqWord; rw [hsame i hi])
  rw [h1] at hs
  simp only [UInt64.xor_self, List.mem_range, hsq, if_true] at hs
  -- the two contributions of square `sq` differ
  unfold sqWord at hs
  have code_lt : ∀ p : Kind, p.code < 12 := by
    intro p; unfold Kind.code Color.idx PK.idx; cases p.color <;> cases p.pk <;> simp
  have code_inj : ∀ p q : Kind, p.code = q.code → p = q := by
    intro p q; unfold Kind.code Color.idx PK.idx
    cases p with | mk pk pc => cases q with | mk qk qc =>
    cases pk <;> cases pc <;> cases qk <;> cases qc <;> simp
  cases hp : pa sq with
  | none =>
    cases hq : pa' sq with
    | none => exact hdiff (by rw [hp, hq])
    | some q =>
      rw [hp, hq] at hs
      simp only [UInt64.zero_xor] at hs
      rw [zPiece_word q sq hsq] at hs
      exact word_ne_zero (by have := code_lt q; omega) hs.symm
  | some p =>
    cases hq : pa' sq with
    | none =>
      rw [hp, hq] at hs
      simp only [UInt64.xor_zero] at hs
      rw [zPiece_word p sq hsq] at hs
      exact word_ne_zero (by have := code_lt p; omega) hs.symm
    | some q =>
      rw [hp, hq] at hs
      dsimp only at hs
      rw [zPiece_word p sq hsq, zPiece_word q sq hsq] at hs
      have hpq : p ≠ q := by intro e; apply hdiff; rw [hp, hq, e]
      have hne : p.code * 64 + sq ≠ q.code * 64 + sq := by
        intro e; apply hpq; apply code_inj; omega
      exact word_xor_ne_zero (by have := code_lt p; omega) (by have := code_lt q; omega) hne hs.symm

/-- the side to move is hashed -/
theorem single_turn (pa : Nat → Option Kind) (r : Rights) (ep : Option Nat) (t : Color) :
    keyOfParts pa r ep t ≠ keyOfParts pa r ep t.opp := by
  intro h
  unfold keyOfParts at h
  have h1 := xor_cancel_left h
  unfold turnWord at h1
  rw [zTurn_word] at h1
  cases t
  · simp [Color.opp] at h1; exact word_ne_zero (by omega) h1
  · simp [Color.opp] at h1; exact word_ne_zero (by omega) h1.symm

/-- the en-passant file is hashed, each file with its own word -/
theorem single_ep (pa : Nat → Option Kind) (r : Rights) (ep ep' : Option Nat) (t : Color)
    (hv : ∀ f, ep = some f → f < 8) (hv' : ∀ f, ep' = some f → f < 8) (hne : ep ≠ ep') :
    keyOfParts pa r ep t ≠ keyOfParts pa r ep' t := by
  intro h
  unfold keyOfParts at h
  have h1 := xor_cancel_left (xor_cancel_right h)
  unfold epWord at h1
  cases ep with
  | none =>
    cases ep' with
    | none => exact hne rfl
    | some g =>
      simp only at h1
      rw [zEp_word g (hv' g rfl)] at h1
      exact word_ne_zero (by have := hv' g rfl; omega) h1.symm
  | some f =>
    cases ep' with
    | none =>
      simp only at h1
      rw [zEp_word f (hv f rfl)] at h1
      exact word_ne_zero (by have := hv f rfl; omega) h1
    | some g =>
      simp only at h1
      rw [zEp_word f (hv f rfl), zEp_word g (hv' g rfl)] at h1
      have := word_inj (by have := hv f rfl; omega) (by have := hv' g rfl; omega) h1
      apply hne; congr 1; omega

theorem one_diff : ∀ a a' b b' c c' d d' : Bool,
    (a != a').toNat + (b != b').toNat + (c != c').toNat + (d != d').toNat = 1 →
    (a ≠ a' → b = b' ∧ c = c' ∧ d = d') ∧ (a = a' → b ≠ b' → c = c' ∧ d = d') ∧
    (a = a' → b = b' → c ≠ c' → d = d') ∧ (a = a' → b = b' → c = c' → d ≠ d') := by decide

/-- each castling right is hashed with its own word: flipping exactly one of the four changes the key -/
theorem single_right (pa : Nat → Option Kind) (r r' : Rights) (ep : Option Nat) (t : Color)
    (hone : (r.wk != r'.wk).toNat + (r.wq != r'.wq).toNat + (r.bk != r'.bk).toNat + (r.bq != r'.bq).toNat = 1) :
    keyOfParts pa r ep t ≠ keyOfParts pa r' ep t := by
  intro h
  unfold keyOfParts at h
  have h1 := xor_cancel_left (xor_cancel_right (xor_cancel_right h))
  unfold rightsWord at h1
  rw [zCastle_word 0 (by omega), zCastle_word 1 (by omega), zCastle_word 2 (by omega), zCastle_word 3 (by omega)] at h1
  have n0 := @word_ne_zero 768 (by omega)
  have n1 := @word_ne_zero 769 (by omega)
  have n2 := @word_ne_zero 770 (by omega)
  have n3 := @word_ne_zero 771 (by omega)
  obtain ⟨a, b, c, d⟩ := r
  obtain ⟨a', b', c', d'⟩ := r'
  simp only at hone h1
  have od := one_diff a a' b b' c c' d d' hone
  clear hone
  by_cases ha : a = a'
  · by_cases hb : b = b'
    · by_cases hc : c = c'
      · have hd := od.2.2.2 ha hb hc
        subst ha; subst hb; subst hc
        have h2 := xor_cancel_left h1
        clear h1 od
        cases d <;> cases d' <;> simp_all
      · have hd := od.2.2.1 ha hb hc
        subst ha; subst hb; subst hd
        have h2 := xor_cancel_left (xor_cancel_right h1)
        clear h1 od
        cases c <;> cases c' <;> simp_all
    · have hcd := od.2.1 ha hb
      obtain ⟨hc, hd⟩ := hcd
      subst ha; subst hc; subst hd
      have h2 := xor_cancel_left (xor_cancel_right (xor_cancel_right h1))
      clear h1 od
      cases b <;> cases b' <;> simp_all
  · obtain ⟨hb, hc, hd⟩ := od.1 ha
    subst hb; subst hc; subst hd
    have h2 := xor_cancel_right (xor_cancel_right (xor_cancel_right h1))
    clear h1 od
    cases a <;> cases a' <;> simp_all

/-- non-vacuity: removing the e2 pawn from the start position changes the model's key -/
example : Board.start.scratchKey ≠ (Board.start.removePiece ⟨1, 4⟩ ⟨.pawn, .white⟩).scratchKey := by decide +kernel

end RCE.Props.C05

#print axioms RCE.Props.C05.scratchKey_is_keyOfParts
#print axioms RCE.Props.C05.single_square
#print axioms RCE.Props.C05.single_turn
#print axioms RCE.Props.C05.single_ep
#print axioms RCE.Props.C05.single_right
