import RCE.Proofs.SearchAbort
/-! # C16 — fixed-depth search from a fresh cache is deterministic

The model is a function, so determinism *of the model* is `rfl`; the content of the property is
non-interference: when no time limit is set, no decision of the search reads the clock, so the
result (best move, score, node count, every cache write, the cache itself) is the same for every
clock — across runs, processes and machine load.  That the implementation *is* this function is
what the correspondence checks (repeated runs, separate processes, under load, bench totals). -/
namespace RCE.Props.C16
open RCE.Search RCE.Proofs.SearchDefs RCE.Proofs.SearchAbort

variable {P M : Type} [DecidableEq M]

/-- with no move time and no clock control the whole result — best move, score, node count, info lines,
    every cache write and the cache itself — is independent of the clock -/
theorem search_clock_indep (env : Env) (G : Game P M) (p : P) (maxDepth : Option Nat) (tt0 : Table M)
    (clock' : Nat → Nat) (h : NoTimeLimit env) :
    search { env with clock := clock' } G p maxDepth tt0 = search env G p maxDepth tt0 :=
  search_clock_indep' env G p maxDepth tt0 clock' h

end RCE.Props.C16

#print axioms RCE.Props.C16.search_clock_indep
