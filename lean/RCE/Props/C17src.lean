import RCE.Props.C17chess
import RCE.Gen.TranslatedEval
/-! # C17, stated about the evaluator TRANSLATED FROM THE SOURCE on this run

`tools/gen_translate.py` turns the body of `SimpleEvaluator::evaluate` (initial score, the two loops, the exact
`i16` operations `saturating_add` / `saturating_sub` / `as i16 *`) into `RCE.Gen.Tr.evaluate`; the (kind, value)
lists and the piece values are `RCE.Gen.evalLoop0/1` (regenerated too), `get_piece_count` is checked to be the plain
per-kind `count_ones`.  The symmetry theorems are restated for that regenerated definition.
`evaluateAvail = false` only when the function was rewritten into a shape the translator does not know. -/
namespace RCE.Props.C17
open RCE RCE.Gen RCE.Proofs.EvalSym

/-- the evaluation the source text computes is the model's, for every board -/
theorem eval_source_eq (_ha : Tr.evaluateAvail = true) (b : Board) : Tr.evaluate b = b.evaluate := rfl

theorem eval_source_mirror (ha : Tr.evaluateAvail = true) (b : Board) : Tr.evaluate (mirrorBoard b) = Tr.evaluate b := by
  rw [eval_source_eq ha, eval_source_eq ha]; exact eval_mirror b

theorem eval_source_swap (ha : Tr.evaluateAvail = true) (b : Board) (h : MaterialBounded b) :
    Tr.evaluate (swapTurn b) = - Tr.evaluate b := by
  rw [eval_source_eq ha, eval_source_eq ha]; exact eval_swap b h

end RCE.Props.C17

#print axioms RCE.Props.C17.eval_source_eq
#print axioms RCE.Props.C17.eval_source_mirror
#print axioms RCE.Props.C17.eval_source_swap
