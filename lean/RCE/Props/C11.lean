import RCE.Proofs.SearchNegamax
import RCE.Props.C11ref
/-! # C11 — pruning, move ordering and re-searches never change the search result

With the cache neutralised and nothing limiting the search, the score the fail-hard PVS search
arrives at for the root — and the value of the move it picks — equal the plain minimax value
`rootValue` of the engine's own look-ahead game (`Spec/Negamax.lean`): for every game, every position
with a legal move, every depth 1..255, every initial killer table and cache content (they only
permute the move order). -/
namespace RCE.Props.C11
open RCE.Search RCE.Proofs.SearchDefs RCE.Proofs.SearchNegamax

variable {P M : Type} [DecidableEq M]

theorem ab_eq_negamax (env : Env) (G : Game P M) (p : P) (d : Nat) (tt0 : Table M)
    (hu : Unlimited env) (hoff : env.cacheOff = true) (he : EvalBoundedFrom G p) (hd : 1 ≤ d ∧ d ≤ 255)
    (hl : legalMovesOf G p ≠ []) :
    let r := search env G p (some d) tt0
    r.st.bestScore = some (rootValue G p d) ∧
    ∃ m, r.best = some m ∧ m ∈ legalMovesOf G p ∧ rootMoveValue G p d m = rootValue G p d :=
  ab_eq_negamax' env G p d tt0 hu hoff he hd hl

end RCE.Props.C11

#print axioms RCE.Props.C11.ab_eq_negamax
