import RCE.Props.C14
import RCE.Props.C01
import RCE.Props.C03
import RCE.Model.Search
import RCE.Proofs.BoardUndo
import RCE.Props.C09
/-! # C14, the chess instance end to end — every reported principal variation is legal under the rules of chess

`C14.pv_legal` says every `info … pv` line is a line of moves legal in the search's game interface; C01
(`legal_exact`) and C03 (`make_refines`, `make_legal`) carry that, move by move, to the rules spec. -/
namespace RCE.Props.C14
open RCE RCE.Search RCE.Proofs.SearchDefs RCE.Proofs.Abs RCE.Proofs.BoardWF

/-- a line of moves each legal under the rules of chess where it is played -/
def SpecLegalLine : Rules.Pos → List Rules.Move → Prop
  | _, [] => True
  | p, m :: ms => m ∈ Rules.legalMoves p ∧ SpecLegalLine (Rules.apply p m) ms

/-- a line legal in the search's game interface is, move by move, legal under the rules of chess -/
theorem specLegalLine_of_legalLine (pv : List Ply) :
    ∀ b : Board, Legal b → LegalLine chessGame b pv → SpecLegalLine (abs b) (pv.map absMove) := by
  induction pv with
  | nil => intro _ _ _; exact True.intro
  | cons m ms ih =>
    intro b hl h
    have hmem : m ∈ b.legalMovesPure := h.1
    have htail : LegalLine chessGame (b.makeMove m) ms := h.2
    have hgen : m ∈ b.allMoves := C03.legal_is_generated b m hmem
    have hpure := (RCE.Proofs.BoardUndo.legalMoves_pure' b hl.wf).2
    have hex := (C01.legal_exact b hl).1
    have h1 : absMove m ∈ Rules.legalMoves (abs b) := by
      apply hex.mem_iff.mp
      rw [hpure]; exact List.mem_map_of_mem hmem
    have h2 := ih (b.makeMove m) (C03.make_legal b m hl hmem) htail
    rw [C03.make_refines b m hl hgen] at h2
    exact ⟨h1, h2⟩

/-- in a legal-game position every principal variation the search reports is a line of moves legal under the rules of
    chess (KeyMoves: equal keys generate equal moves; the initial cache holds generated moves) -/
theorem chess_pv_legal_by_the_rules (b : Board) (hl : Legal b) (g : GoLimits) (maxDepth : Option Nat) (clock : Nat → Nat)
    (stopAtPoll : Nat) (cacheOff : Bool) (tt0 : Search.Table Ply)
    (hk : KeyMoves chessGame) (ht : TableMovesOK chessGame tt0) :
    ∀ i ∈ (chessSearch b g maxDepth clock stopAtPoll cacheOff tt0).infos, SpecLegalLine (abs b) (i.pv.map absMove) := by
  intro i hi
  exact specLegalLine_of_legalLine i.pv b hl
    (pv_legal { limits := g.toLimits b.turn, clock := clock, stopAtPoll := stopAtPoll, cacheOff := cacheOff }
      chessGame b maxDepth tt0 hk ht i hi)

open RCE.Proofs.EvalBound in
/-- in a legal-game position that has a legal move (material within the bound), every info line the search prints —
    under every limit, stop point and monotone clock, from any cache of `i16` scores — has a principal variation
    that starts with a move legal under the rules of chess -/
theorem chess_pv_nonempty (b : Board) (hl : Legal b) (hp : PotentialBounded b) (g : GoLimits) (maxDepth : Option Nat)
    (clock : Nat → Nat) (hc : ∀ i j, i ≤ j → clock i ≤ clock j) (stopAtPoll : Nat) (cacheOff : Bool) (tt0 : Search.Table Ply)
    (hm : b.legalMovesPure ≠ []) (ht : TableScoresOK tt0) :
    ∀ i ∈ (chessSearch b g maxDepth clock stopAtPoll cacheOff tt0).infos,
      ∃ m rest, i.pv = m :: rest ∧ absMove m ∈ Rules.legalMoves (abs b) := by
  intro i hi
  obtain ⟨m, rest, hpv, hmem⟩ := pv_nonempty
    { limits := g.toLimits b.turn, clock := clock, stopAtPoll := stopAtPoll, cacheOff := cacheOff } chessGame b maxDepth tt0
    hc (by rw [C09.chess_legalMovesOf]; exact hm) (C09.chess_eval_bounded b hl.wf hp) ht i hi
  refine ⟨m, rest, hpv, ?_⟩
  rw [C09.chess_legalMovesOf] at hmem
  have hpure := (RCE.Proofs.BoardUndo.legalMoves_pure' b hl.wf).2
  have hex := (C01.legal_exact b hl).1
  apply hex.mem_iff.mp
  rw [hpure]; exact List.mem_map_of_mem hmem

end RCE.Props.C14

#print axioms RCE.Props.C14.chess_pv_nonempty
#print axioms RCE.Props.C14.specLegalLine_of_legalLine
#print axioms RCE.Props.C14.chess_pv_legal_by_the_rules
