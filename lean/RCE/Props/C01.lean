import RCE.Proofs.MoveGen
import RCE.Proofs.Refine
/-! # C01 — legal move generation and check status are exactly the rules of chess

For **every** legal-game position (`Legal b`: well-formed, both kings present, the side that just
moved not in check) the moves the engine offers are, as (from, to, promotion) triples, exactly the
legal moves of the rules spec — same members, no duplicates — and its answer to "is this side in
check" is the spec's.  Builds on C06 (attack sets exact for all occupancies) and C03 (`make_refines`).

`attacked_exact`, `inCheck_exact`, `pseudo_exact` are unconditional.  `legal_exact` and `mate_stalemate_exact`
go through one `make_move`; until C03's one-step refinement (`RCE/Proofs/Refine.lean`) is plugged in they take
`MakeRefines` (`abs (make_move b m) = Rules.apply (abs b) (absMove m)` for generated moves of legal positions)
as an explicit hypothesis.  (`MakeKeeps` — `make_move` keeps `WF` and both kings — is proved: `makeKeeps`.) -/
namespace RCE.Props.C01
open RCE RCE.Proofs.BoardWF RCE.Proofs.Abs RCE.Proofs.MoveGen

/-- the attacked-square set is exact: a square is in `get_attacked_squares(c)` iff the rules say a piece of the other colour attacks it -/
theorem attacked_exact (b : Board) (hw : WF b) (c : Color) (t : Nat) (ht : t < 64) :
    testBit (b.attackedSquares c) t = Rules.attacked (abs b) t (absColor c.opp) :=
  attacked_exact' b hw c t ht

/-- check status is exact for both colours -/
theorem inCheck_exact (b : Board) (hw : WF b) (hk : KingsPresent b) (c : Color) :
    b.isInCheck c = Rules.inCheck (abs b) (absColor c) :=
  inCheck_exact' b hw hk c

/-- pseudo-legal generation is exact: same (from, to, promotion) triples as the rules' pseudo-legal moves, each once -/
theorem pseudo_exact (b : Board) (hl : Legal b) :
    (b.allMoves.map absMove).Perm (Rules.pseudoMoves (abs b)) ∧ (b.allMoves.map absMove).Nodup :=
  pseudo_exact' b hl

/-- the legal moves offered are exactly the rules' legal moves, with no duplicates -/
theorem legal_exact (b : Board) (hl : Legal b) :
    ((b.legalMoves).1.map absMove).Perm (Rules.legalMoves (abs b)) ∧ ((b.legalMoves).1.map absMove).Nodup :=
  legal_exact_of (fun b m hl hm => RCE.Proofs.Refine.make_refines' b m hl hm) makeKeeps b hl

/-- consequently checkmate and stalemate are recognised exactly -/
theorem mate_stalemate_exact (b : Board) (hl : Legal b) :
    (((b.legalMoves).1.isEmpty && b.isInCheck b.turn) = Rules.isCheckmate (abs b)) ∧
    (((b.legalMoves).1.isEmpty && !b.isInCheck b.turn) = Rules.isStalemate (abs b)) :=
  mate_stalemate_exact_of (fun b m hl hm => RCE.Proofs.Refine.make_refines' b m hl hm) makeKeeps b hl

/-- `make_move` over a generated move of a legal position keeps the invariant and both kings -/
theorem make_keeps : MakeKeeps := makeKeeps

end RCE.Props.C01

#print axioms RCE.Props.C01.attacked_exact
#print axioms RCE.Props.C01.inCheck_exact
#print axioms RCE.Props.C01.pseudo_exact
#print axioms RCE.Props.C01.legal_exact
#print axioms RCE.Props.C01.mate_stalemate_exact
#print axioms RCE.Props.C01.make_keeps
