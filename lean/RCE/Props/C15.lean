import RCE.Model.Uci
/-! # C15 — no input line can kill or wedge the engine; quit and end-of-input end it

Every slice / index operation of the token parser is modelled as a partial operation whose failure is
the outcome `Parsed.panic`; the command loop stops when a panic outcome occurs (`Session.panicked`).
The theorems are for **all** token lists (any length, any strings) and all sessions (any number of lines).
FEN arguments are assumed valid, as in the property: `FenOK`. -/
namespace RCE.Props.C15
open RCE RCE.Uci

theorem sliceFrom_some (l : List String) (a : Nat) (h : a ≤ l.length) : sliceFrom? l a = some (l.drop a) := by
  simp [sliceFrom?, h]

theorem idxOf?_lt {l : List String} {x : String} {i : Nat} (h : l.idxOf? x = some i) : i < l.length := by
  have := List.idxOf?_eq_some_iff.mp h
  obtain ⟨hlt, _⟩ := this
  exact hlt

theorem parseOption_no_panic (args : List String) (site : String) : parseOption args ≠ .panic site := by
  unfold parseOption
  split
  · simp
  · split
    · simp
    · rename_i nameIdx hname
      split
      · simp
      · rename_i hlen
        have hn : nameIdx < args.length := idxOf?_lt hname
        cases hv : args.idxOf? "value" with
        | none =>
          simp only []
          rw [sliceFrom_some _ _ (by omega)]
          simp only []
          split <;> simp
        | some idx =>
          have hi : idx < args.length := idxOf?_lt hv
          simp only []
          by_cases hlt : idx < nameIdx
          · simp [hlt]
          · simp only [hlt, if_false]
            have : args.length > idx := hi
            simp only [this, if_true]
            rw [sliceFrom_some _ _ (by omega)]
            simp only []
            have hs : slice? args (nameIdx + 1) idx = some ((args.take idx).drop (nameIdx + 1)) := by
              have hne : idx ≠ nameIdx := by
                intro e; subst e
                have h1 := (List.idxOf?_eq_some_iff.mp hname).2.1
                have h2 := (List.idxOf?_eq_some_iff.mp hv).2.1
                rw [h1] at h2; exact absurd h2 (by decide)
              unfold slice?
              have : nameIdx + 1 ≤ idx ∧ idx ≤ args.length := by omega
              simp [this]
            rw [hs]
            simp only []
            split <;> simp

theorem positionKind_no_panic (args : List String) (a0 : String) (site : String) :
    positionKind args a0 ≠ .error (.panic site) := by
  unfold positionKind
  split
  · simp
  · split
    · split
      · simp
      · rename_i h
        have hs : slice? args 1 7 = some ((args.take 7).drop 1) := by
          unfold slice?; have : 1 ≤ 7 ∧ 7 ≤ args.length := by omega
          simp [this]
        rw [hs]; simp
    · simp

theorem positionMoves_no_panic (args : List String) (kind : PositionKind) (site : String) :
    positionMoves args kind ≠ .error (.panic site) := by
  unfold positionMoves
  cases kind with
  | startpos =>
    simp only []
    split
    · rename_i h; rw [sliceFrom_some _ _ (by omega)]; simp
    · simp
  | fen f =>
    simp only []
    split
    · rename_i h; rw [sliceFrom_some _ _ (by omega)]; simp
    · simp

theorem parsePosition_no_panic (args : List String) (site : String) : parsePosition args ≠ .panic site := by
  unfold parsePosition
  cases args with
  | nil => simp
  | cons a0 rest =>
    simp only []
    cases hk : positionKind (a0 :: rest) a0 with
    | error e =>
      simp only []
      intro he; subst he
      exact positionKind_no_panic _ _ _ hk
    | ok kind =>
      simp only []
      cases hm : positionMoves (a0 :: rest) kind with
      | error e =>
        simp only []
        intro he; subst he
        exact positionMoves_no_panic _ _ _ hm
      | ok moves => simp

theorem parseGoAux_no_panic (fuel : Nat) (args : List String) (l : GoLimits) (site : String) :
    parseGoAux fuel args l ≠ .panic site := by
  induction fuel generalizing args l with
  | zero => simp [parseGoAux]
  | succ n ih =>
    cases args with
    | nil => simp [parseGoAux]
    | cons tok rest =>
      unfold parseGoAux
      simp only []
      have wv : ∀ (bits : Nat) (what : String) (set : Nat → GoLimits),
          (match rest with
            | [] => Parsed.rejected "Failed to parse go command: Missing value in go command!"
            | v :: rest' => match parseUnsigned? bits v with
              | some k => parseGoAux n rest' (set k)
              | none => Parsed.rejected ("Failed to parse go command: Failed to parse " ++ what ++ " value")) ≠ .panic site := by
        intro bits what set
        cases rest with
        | nil => simp
        | cons v rest' =>
          simp only []
          cases parseUnsigned? bits v with
          | none => simp
          | some k => exact ih _ _
      split
      · exact ih _ _
      · split; exact wv _ _ _
        split; exact wv _ _ _
        split; exact wv _ _ _
        split; exact wv _ _ _
        split; exact wv _ _ _
        split; exact wv _ _ _
        split; exact wv _ _ _
        split <;> simp

/-- the token parser never panics, whatever the tokens -/
theorem parse_total (args : List String) (site : String) : parseCommand args ≠ .panic site := by
  unfold parseCommand
  cases args with
  | nil => simp
  | cons c rest =>
    simp only []
    split; simp
    split; simp
    split; simp
    split; exact parseOption_no_panic _ _
    split; exact parsePosition_no_panic _ _
    split; exact parseGoAux_no_panic _ _ _ _
    split; simp
    split <;> simp

/-- a line whose FEN argument (if it is a `position fen …` command) is accepted by the FEN reader -/
def FenOK (line : String) : Prop :=
  match parseCommand (tokenize line) with
  | .ok (.position (.fen f) _) => (Board.fromFen? f.toList).isSome = true
  | _ => True

/-- one line never makes the loop panic -/
theorem stepLine_no_panic (s : Session) (line : String) (hs : s.panicked = none) (hf : FenOK line) :
    (stepLine s line).panicked = none := by
  unfold stepLine
  split
  · exact hs
  · cases hp : parseCommand (tokenize line) with
    | rejected m => simpa using hs
    | panic site => exact absurd hp (parse_total _ _)
    | ok c =>
      cases c with
      | quit => simpa using hs
      | position kind moves =>
        simp only [execute]
        cases kind with
        | startpos =>
          simp only [loadPosition]
          split <;> first | exact hs | simp_all
        | fen f =>
          unfold FenOK at hf
          rw [hp] at hf
          simp only at hf
          simp only [loadPosition]
          cases hb : Board.fromFen? f.toList with
          | none => simp [hb] at hf
          | some b0 => simp only []; split <;> first | exact hs | simp_all
      | _ => simpa [execute] using hs

/-- no session of valid-FEN lines, of any length, makes the loop panic; and the loop has ended when the input has (`eof_exits`) -/
theorem loop_total (lines : List String) (hf : ∀ l ∈ lines, FenOK l) :
    (runSession lines).panicked = none ∧ (runSession lines).exited = true := by
  unfold runSession
  refine ⟨?_, rfl⟩
  simp only []
  have : ∀ (ls : List String) (s : Session), s.panicked = none → (∀ l ∈ ls, FenOK l) → (ls.foldl stepLine s).panicked = none := by
    intro ls
    induction ls with
    | nil => intro s hs _; exact hs
    | cons l ls ih =>
      intro s hs hall
      exact ih _ (stepLine_no_panic s l hs (hall l (by simp))) (fun x hx => hall x (by simp [hx]))
  exact this lines {} rfl hf

/-- wherever the session stands (not yet quit, not panicked), an `isready` line is answered with `readyok` -/
theorem isready_answered (s : Session) (line : String) (he : s.exited = false) (hp : s.panicked = none)
    (hc : parseCommand (tokenize line) = .ok .isready) :
    (stepLine s line).out = s.out ++ ["readyok"] ∧ (stepLine s line).exited = false := by
  unfold stepLine
  simp [he, hp, hc, execute]

/-- `quit` ends the loop: every later line is ignored -/
theorem quit_exits (s : Session) (line : String) (he : s.exited = false) (hp : s.panicked = none)
    (hc : parseCommand (tokenize line) = .ok .quit) (rest : List String) :
    (stepLine s line).exited = true ∧ rest.foldl stepLine (stepLine s line) = stepLine s line := by
  have h1 : (stepLine s line).exited = true := by unfold stepLine; simp [he, hp, hc]
  refine ⟨h1, ?_⟩
  induction rest with
  | nil => rfl
  | cons l ls ih =>
    simp only [List.foldl_cons]
    have : stepLine (stepLine s line) l = stepLine s line := by
      generalize stepLine s line = t at h1
      unfold stepLine
      simp [h1]
    rw [this]; exact ih

/-- non-vacuity: the lines that used to kill the input thread are rejected, not panics -/
example : parseCommand ["go", "wtime"] = .rejected "Failed to parse go command: Missing value in go command!" := by decide
example : parseCommand ["setoption", "name", "value"] = .rejected "No name provided to setoption!" := by decide
example : parseCommand ["setoption", "value", "x", "name", "y"] = .rejected "The value must follow the name in setoption!" := by decide

end RCE.Props.C15

#print axioms RCE.Props.C15.parse_total
#print axioms RCE.Props.C15.loop_total
#print axioms RCE.Props.C15.isready_answered
#print axioms RCE.Props.C15.quit_exits
