import RCE.Model.Board
/-! `Board::from_fen` (`src/board/serialize.rs`, `boardbuilder.rs`) over `List Char`.
    `none` = one of the reader's panics (unknown character, missing field, unparsable number). -/
namespace RCE

/-- `split_ascii_whitespace`: maximal runs of non-whitespace (space, \t, \n, \x0C, \r) -/
def isAsciiWs (c : Char) : Bool := c == ' ' || c == '\t' || c == '\n' || c == '\x0c' || c == '\r'

def splitWsAux : List Char → List Char → List (List Char) → List (List Char)
  | [], cur, acc => (if cur.isEmpty then acc else cur.reverse :: acc).reverse
  | c :: cs, cur, acc =>
    if isAsciiWs c then splitWsAux cs [] (if cur.isEmpty then acc else cur.reverse :: acc)
    else splitWsAux cs (c :: cur) acc
def splitWs (s : List Char) : List (List Char) := splitWsAux s [] []

/-- decimal `str::parse::<u16>()` (an optional leading `+` is accepted by Rust; not generated) -/
def parseNat? (s : List Char) : Option Nat :=
  if s.isEmpty then none else
  s.foldl (fun acc c => match acc with
    | none => none
    | some n => if c.isDigit then some (n * 10 + (c.toNat - 48)) else none) (some 0)

def parseU16? (s : List Char) : Option Nat :=
  match parseNat? s with
  | some n => if n < 65536 then some n else none
  | none => none

def pieceOfChar (c : Char) : Option Kind :=
  match c with
  | 'P' => some ⟨.pawn, .white⟩ | 'K' => some ⟨.king, .white⟩ | 'Q' => some ⟨.queen, .white⟩
  | 'R' => some ⟨.rook, .white⟩ | 'B' => some ⟨.bishop, .white⟩ | 'N' => some ⟨.knight, .white⟩
  | 'p' => some ⟨.pawn, .black⟩ | 'k' => some ⟨.king, .black⟩ | 'q' => some ⟨.queen, .black⟩
  | 'r' => some ⟨.rook, .black⟩ | 'b' => some ⟨.bishop, .black⟩ | 'n' => some ⟨.knight, .black⟩
  | _ => none

/-- `piece_placement`: `idx` runs over the 64 squares from a8; the mask is computed for every
    character (`8 * (7 - idx / 8) + idx % 8`, which underflows — a panic — once `idx ≥ 64`) -/
def placementAux : List Char → Nat → PBB → Option PBB
  | [], _, b => some b
  | c :: cs, idx, b =>
    if idx / 8 > 7 then none else
    let sq := 8 * (7 - idx / 8) + idx % 8
    match pieceOfChar c with
    | some k => placementAux cs (idx + 1) (b.set k (b.get k ||| bit sq))
    | none =>
      if '1' ≤ c ∧ c ≤ '8' then placementAux cs (idx + (c.toNat - 48)) b
      else if c == '/' then (if idx == 0 then none else placementAux cs idx b)
      else none

/-- the builder's `build()` of the piece boards: unions recomputed from the twelve boards -/
def PBB.withUnions (b : PBB) : PBB := (b.recompute .white).recompute .black

def Board.fromFen? (s : List Char) : Option Board := do
  let fields := splitWs s
  let f0 ← fields[0]?
  let f1 ← fields[1]?
  let f2 ← fields[2]?
  let f3 ← fields[3]?
  let bbs ← placementAux f0 0 PBB.empty
  let turn ← match f1.headD 'w' with
    | 'w' => some Color.white | 'b' => some Color.black | _ => none
  let rights ← f2.foldl (fun (acc : Option Rights) c => match acc with
    | none => none
    | some r => match c with
      | 'K' => some { r with wk := true } | 'k' => some { r with bk := true }
      | 'Q' => some { r with wq := true } | 'q' => some { r with bq := true }
      | '-' => some r | _ => none) (some ⟨false, false, false, false⟩)
  let ep ← match f3.headD '-' with
    | '-' => some (none : Option Nat)
    | c => if 'a' ≤ c ∧ c ≤ 'h' then some (some (c.toNat - 97)) else none
  let half ← parseU16? (fields.getD 4 ['0'])
  let full ← parseU16? (fields.getD 5 ['1'])
  -- `history(builder)`: one synthetic record carrying the rights and the clock
  let rec0 : Ply := match ep with
    | some file =>
      (match turn with
       | .white => { mkPly ⟨1, file⟩ ⟨3, file⟩ ⟨.pawn, .white⟩ with isDoublePush := true }
       | .black => { mkPly ⟨6, file⟩ ⟨4, file⟩ ⟨.pawn, .black⟩ with isDoublePush := true })
    | none => mkPly ⟨0, 0⟩ ⟨0, 0⟩ ⟨.pawn, turn⟩
  let rec0 := { rec0 with rights := rights, clock := half }
  let b : Board := { turn := turn, fullmove := full, ep := ep, history := [rec0], posHist := [],
                     bbs := bbs.withUnions, zkey := 0 }
  pure { b with zkey := b.scratchKey }

end RCE
