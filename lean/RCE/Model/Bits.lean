/-! Bitboard primitives: the exact `u64` operations the engine uses (`src/board/bitboard.rs`).
    No Mathlib: this file is linked into the driver executable. -/
namespace RCE

abbrev BB := UInt64

/-- `1 << i` for `i < 64` (Rust `1u64 << i`; the engine never shifts by 64 or more here). -/
@[inline] def bit (i : Nat) : BB := (1 : UInt64) <<< i.toUInt64

@[inline] def testBit (b : BB) (i : Nat) : Bool := (b >>> i.toUInt64) &&& 1 != 0

/-- Rust `Bitboard << u32` = `checked_shl(rhs).unwrap_or(0)`: zero when the amount is ≥ 64. -/
@[inline] def shlChecked (b : BB) (n : Nat) : BB := if n < 64 then b <<< n.toUInt64 else 0

/-- plain `>>` (the engine only uses amounts < 64) -/
@[inline] def shr (b : BB) (n : Nat) : BB := b >>> n.toUInt64
@[inline] def shl (b : BB) (n : Nat) : BB := b <<< n.toUInt64

/-- `count_ones` by definition: number of set bits among the 64 positions -/
def popcountAux (b : BB) : Nat → Nat → Nat
  | 0, acc => acc
  | n+1, acc => popcountAux b n (if testBit b n then acc + 1 else acc)
def popcount (b : BB) : Nat := popcountAux b 64 0

/-- `trailing_zeros`: index of the least significant set bit, 64 for zero -/
def bsfAux (b : BB) : Nat → Nat → Nat
  | 0, _ => 64
  | fuel+1, i => if testBit b i then i else bsfAux b fuel (i+1)
def bsf (b : BB) : Nat := bsfAux b 64 0

/-- `63 - leading_zeros`: index of the most significant set bit (the engine only calls it on non-zero boards) -/
def bsrAux (b : BB) : Nat → Nat
  | 0 => 0
  | n+1 => if testBit b n then n else bsrAux b n
def bsr (b : BB) : Nat := bsrAux b 64

/-- `From<Bitboard> for Vec<Square>`: indices of the set bits in ascending order -/
def bitIndices (b : BB) : List Nat := (List.range 64).filter (testBit b)

def listGetD (l : List Nat) (i : Nat) : Nat := l.getD i 0

end RCE
