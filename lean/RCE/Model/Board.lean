import RCE.Model.Attacks
import RCE.Gen.Zobrist
/-! The position representation and its operations exactly as `src/board.rs`,
    `src/board/piece_bitboards.rs`, `src/board/ply.rs`, `src/board/zkey.rs` and the six
    `src/board/piece/*.rs` implement them.  `&mut self` methods return the new value; a Rust
    panic is an explicit `none` / `Except.error` where a reachable one exists. -/
namespace RCE

inductive Color | white | black
deriving DecidableEq, Repr, Inhabited

def Color.opp : Color → Color | .white => .black | .black => .white
def Color.idx : Color → Nat | .white => 0 | .black => 1

/-- `usize::from(Kind)`: pawn 0, king 1, queen 2, rook 3, bishop 4, knight 5 -/
inductive PK | pawn | king | queen | rook | bishop | knight
deriving DecidableEq, Repr, Inhabited

def PK.idx : PK → Nat
  | .pawn => 0 | .king => 1 | .queen => 2 | .rook => 3 | .bishop => 4 | .knight => 5

structure Kind where
  pk : PK
  color : Color
deriving DecidableEq, Repr, Inhabited

/-- `color * 6 + kind`: the code used on the wire and to index the Zobrist table -/
def Kind.code (k : Kind) : Nat := k.color.idx * 6 + k.pk.idx

/-- `Square { rank, file }` with `u8` fields (values ≥ 8 are representable and do occur transiently,
    e.g. a pawn's `dest_east` on the h-file) -/
structure Square where
  rank : Nat
  file : Nat
deriving DecidableEq, Repr, Inhabited

def Square.ofIdx (i : Nat) : Square := ⟨i / 8, i % 8⟩
def Square.idx (s : Square) : Nat := s.rank * 8 + s.file
/-- `Square::get_mask` = rank mask ∧ file mask -/
def Square.mask (s : Square) : BB := shl 0xFF (s.rank * 8) &&& shl 0x0101010101010101 s.file
/-- `Square + Direction` with the `as u8` wrap-around of the Rust code -/
def Square.add (s : Square) (dr df : Int) : Square :=
  ⟨((s.rank : Int) + dr).emod 256 |>.toNat, ((s.file : Int) + df).emod 256 |>.toNat⟩

structure Rights where
  wk : Bool
  wq : Bool
  bk : Bool
  bq : Bool
deriving DecidableEq, Repr, Inhabited

def Rights.all : Rights := ⟨true, true, true, true⟩

/-- `CastlingKind` as its `usize` index: 0 WK, 1 WQ, 2 BK, 3 BQ -/
def Rights.get (r : Rights) : Nat → Bool
  | 0 => r.wk | 1 => r.wq | 2 => r.bk | _ => r.bq

structure Ply where
  start : Square
  dest : Square
  piece : Kind
  captured : Option Kind := none
  promoted : Option Kind := none
  isCastles : Bool := false
  enPassant : Bool := false
  isDoublePush : Bool := false
  clock : Nat := 0
  rights : Rights := Rights.all
deriving DecidableEq, Repr, Inhabited

/-- `Ply::default()` -/
def Ply.default : Ply := { start := ⟨0, 0⟩, dest := ⟨0, 0⟩, piece := ⟨.pawn, .white⟩ }

def Ply.isCapture (p : Ply) : Bool := p.captured.isSome
def Ply.isPromotion (p : Ply) : Bool := p.promoted.isSome
def Ply.isQuiet (p : Ply) : Bool := !p.isCapture && !p.isPromotion

/-- The fifteen bitboards of `PieceBitboards`, twelve piece boards indexed by `Kind.code`
    (0..5 white pawn, king, queen, rook, bishop, knight; 6..11 black) and the three unions. -/
structure PBB where
  wp : BB
  wk : BB
  wq : BB
  wr : BB
  wb : BB
  wn : BB
  bp : BB
  bk : BB
  bq : BB
  br : BB
  bb : BB
  bn : BB
  white : BB
  black : BB
  all : BB
deriving DecidableEq, Repr, Inhabited

def PBB.get (b : PBB) (k : Kind) : BB :=
  match k.color, k.pk with
  | .white, .pawn => b.wp | .white, .king => b.wk | .white, .queen => b.wq
  | .white, .rook => b.wr | .white, .bishop => b.wb | .white, .knight => b.wn
  | .black, .pawn => b.bp | .black, .king => b.bk | .black, .queen => b.bq
  | .black, .rook => b.br | .black, .bishop => b.bb | .black, .knight => b.bn

def PBB.set (b : PBB) (k : Kind) (v : BB) : PBB :=
  match k.color, k.pk with
  | .white, .pawn => { b with wp := v } | .white, .king => { b with wk := v } | .white, .queen => { b with wq := v }
  | .white, .rook => { b with wr := v } | .white, .bishop => { b with wb := v } | .white, .knight => { b with wn := v }
  | .black, .pawn => { b with bp := v } | .black, .king => { b with bk := v } | .black, .queen => { b with bq := v }
  | .black, .rook => { b with br := v } | .black, .bishop => { b with bb := v } | .black, .knight => { b with bn := v }

/-- `recompute_combinations(Some(color))` -/
def PBB.recompute (b : PBB) (c : Color) : PBB :=
  let b := match c with
    | .white => { b with white := b.wp ||| b.wn ||| b.wb ||| b.wr ||| b.wq ||| b.wk }
    | .black => { b with black := b.bp ||| b.bn ||| b.bb ||| b.br ||| b.bq ||| b.bk }
  { b with all := b.white ||| b.black }

def PBB.addPiece (b : PBB) (s : Square) (k : Kind) : PBB :=
  (b.set k (b.get k ||| s.mask)).recompute k.color

def PBB.removePiece (b : PBB) (s : Square) (k : Kind) : PBB :=
  (b.set k (b.get k &&& ~~~s.mask)).recompute k.color

/-- `get_piece_kind`; `Except.error` = the `unreachable!` on malformed unions -/
def PBB.pieceAt? (b : PBB) (s : Square) : Except Unit (Option Kind) :=
  let m := s.mask
  if m &&& b.white != 0 then
    if m &&& b.wp != 0 then .ok (some ⟨.pawn, .white⟩)
    else if m &&& b.wk != 0 then .ok (some ⟨.king, .white⟩)
    else if m &&& b.wq != 0 then .ok (some ⟨.queen, .white⟩)
    else if m &&& b.wr != 0 then .ok (some ⟨.rook, .white⟩)
    else if m &&& b.wn != 0 then .ok (some ⟨.knight, .white⟩)
    else if m &&& b.wb != 0 then .ok (some ⟨.bishop, .white⟩)
    else .error ()
  else if m &&& b.black != 0 then
    if m &&& b.bp != 0 then .ok (some ⟨.pawn, .black⟩)
    else if m &&& b.bk != 0 then .ok (some ⟨.king, .black⟩)
    else if m &&& b.bq != 0 then .ok (some ⟨.queen, .black⟩)
    else if m &&& b.br != 0 then .ok (some ⟨.rook, .black⟩)
    else if m &&& b.bn != 0 then .ok (some ⟨.knight, .black⟩)
    else if m &&& b.bb != 0 then .ok (some ⟨.bishop, .black⟩)
    else .error ()
  else .ok none

def PBB.pieceAt (b : PBB) (s : Square) : Option Kind :=
  match b.pieceAt? s with | .ok r => r | .error _ => none

def PBB.empty : PBB := ⟨0,0,0,0,0,0,0,0,0,0,0,0,0,0,0⟩

/-- `PieceBitboards::default()` -/
def PBB.start : PBB :=
  let b : PBB := { PBB.empty with
    wp := 0x000000000000FF00, wk := 0x10, wq := 0x08, wr := 0x81, wb := 0x24, wn := 0x42,
    bp := 0x00FF000000000000, bk := 0x1000000000000000, bq := 0x0800000000000000,
    br := 0x8100000000000000, bb := 0x2400000000000000, bn := 0x4200000000000000 }
  (b.recompute .white).recompute .black

/-! ### Zobrist words (`zkey.rs`; the table itself is `RCE.Gen.Zobrist`, dumped from the implementation) -/

def zPiece (k : Kind) (s : Square) : UInt64 := Gen.zPieces.getD (k.code * 64 + s.idx) 0
def zCastle (i : Nat) : UInt64 := Gen.zCastling.getD i 0
def zEp (f : Nat) : UInt64 := Gen.zEnPassant.getD f 0
def zTurn : UInt64 := Gen.zWhiteTurn

/-- `Board` -/
structure Board where
  turn : Color
  fullmove : Nat
  ep : Option Nat
  /-- the undo stack, most recent first (`history.last()` = head) -/
  history : List Ply
  /-- the repetition record as a list of keys, most recent first (the Rust map key ↦ count is
      the multiset of this list) -/
  posHist : List UInt64
  bbs : PBB
  zkey : UInt64
deriving DecidableEq, Repr, Inhabited

def Board.top (b : Board) : Ply := b.history.headD Ply.default
/-- `castle_status(kind)` -/
def Board.rights (b : Board) : Rights := b.top.rights
def Board.halfmove (b : Board) : Nat := b.top.clock
def Board.pieceAt (b : Board) (s : Square) : Option Kind := b.bbs.pieceAt s
def Board.positionReached (b : Board) (k : UInt64) : Bool := b.posHist.contains k

/-- `impl From<&Board> for ZKey` -/
def Board.scratchKey (b : Board) : UInt64 :=
  let k := (List.range 64).foldl (fun k i =>
      match b.pieceAt (Square.ofIdx i) with
      | some p => k ^^^ zPiece p (Square.ofIdx i)
      | none => k) (0 : UInt64)
  let r := b.rights
  let k := if r.wk then k ^^^ zCastle 0 else k
  let k := if r.wq then k ^^^ zCastle 1 else k
  let k := if r.bk then k ^^^ zCastle 2 else k
  let k := if r.bq then k ^^^ zCastle 3 else k
  let k := match b.ep with | some f => k ^^^ zEp f | none => k
  if b.turn == .white then k ^^^ zTurn else k

/-- `Board::default()` -/
def Board.start : Board :=
  let b : Board := { turn := .white, fullmove := 1, ep := none, history := [Ply.default],
                     posHist := [], bbs := PBB.start, zkey := 0 }
  { b with zkey := b.scratchKey }

def Board.addPiece (b : Board) (s : Square) (k : Kind) : Board :=
  { b with zkey := b.zkey ^^^ zPiece k s, bbs := b.bbs.addPiece s k }

def Board.removePiece (b : Board) (s : Square) (k : Kind) : Board :=
  { b with zkey := b.zkey ^^^ zPiece k s, bbs := b.bbs.removePiece s k }

def Board.switchTurn (b : Board) : Board :=
  { b with zkey := b.zkey ^^^ zTurn, turn := b.turn.opp }

/-- `move_piece` (the `(None, true)` panic cannot be reached from generated moves; it is kept as identity) -/
def Board.movePiece (b : Board) (start dest : Square) (moving : Kind) (promoted captured : Option Kind)
    (ep : Bool) : Board :=
  let b := b.removePiece start moving
  let b := match captured, ep with
    | some c, true => b.removePiece ⟨start.rank, dest.file⟩ c
    | some c, false => b.removePiece dest c
    | none, _ => b
  b.addPiece dest (promoted.getD moving)

/-- `undo_move_piece` -/
def Board.undoMovePiece (b : Board) (start dest : Square) (moving : Kind) (promoted captured : Option Kind)
    (ep : Bool) : Board :=
  let b := b.removePiece dest (promoted.getD moving)
  let b := match captured, ep with
    | some c, true => b.addPiece ⟨start.rank, dest.file⟩ c
    | some c, false => b.addPiece dest c
    | none, _ => b
  b.addPiece start moving

/-- rook squares of a castling move by the king's destination; `none` = the `panic!` -/
def castleRookSquares (dest : Square) : Option (Square × Square) :=
  if dest = ⟨0, 6⟩ then some (⟨0, 7⟩, ⟨0, 5⟩)
  else if dest = ⟨0, 2⟩ then some (⟨0, 0⟩, ⟨0, 3⟩)
  else if dest = ⟨7, 6⟩ then some (⟨7, 7⟩, ⟨7, 5⟩)
  else if dest = ⟨7, 2⟩ then some (⟨7, 0⟩, ⟨7, 3⟩)
  else none

/-- clear right `i` in the ply and toggle its word in the key, if it was available -/
def revoke (i : Nat) (st : UInt64 × Rights) : UInt64 × Rights :=
  let (k, r) := st
  match i with
  | 0 => if r.wk then (k ^^^ zCastle 0, { r with wk := false }) else st
  | 1 => if r.wq then (k ^^^ zCastle 1, { r with wq := false }) else st
  | 2 => if r.bk then (k ^^^ zCastle 2, { r with bk := false }) else st
  | _ => if r.bq then (k ^^^ zCastle 3, { r with bq := false }) else st

/-- the two `match` blocks of `make_move_castling_checks` (mover, then captured rook) -/
def castlingRevocations (m : Ply) (st : UInt64 × Rights) : UInt64 × Rights :=
  let st :=
    match m.piece.pk, m.piece.color with
    | .king, .white => revoke 1 (revoke 0 st)
    | .king, .black => revoke 3 (revoke 2 st)
    | .rook, .white =>
      if m.start = ⟨0, 0⟩ then revoke 1 st else if m.start = ⟨0, 7⟩ then revoke 0 st else st
    | .rook, .black =>
      if m.start = ⟨7, 0⟩ then revoke 3 st else if m.start = ⟨7, 7⟩ then revoke 2 st else st
    | _, _ => st
  match m.captured with
  | some ⟨.rook, .white⟩ =>
    if m.dest = ⟨0, 0⟩ then revoke 1 st else if m.dest = ⟨0, 7⟩ then revoke 0 st else st
  | some ⟨.rook, .black⟩ =>
    if m.dest = ⟨7, 0⟩ then revoke 3 st else if m.dest = ⟨7, 7⟩ then revoke 2 st else st
  | _ => st

/-- `make_move` -/
def Board.makeMove (b : Board) (m : Ply) : Board :=
  let posHist := b.zkey :: b.posHist
  let prev := b.top
  let clock := if m.piece.pk == .pawn || m.captured.isSome then 0 else prev.clock + 1
  let m := { m with clock := clock, rights := prev.rights }
  -- clear the previous en-passant file, set the new one
  let key := match b.ep with | some f => b.zkey ^^^ zEp f | none => b.zkey
  let (ep, key) := if m.isDoublePush then (some m.dest.file, key ^^^ zEp m.dest.file) else (none, key)
  let b := { b with posHist := posHist, ep := ep, zkey := key }
  let b := b.movePiece m.start m.dest m.piece m.promoted m.captured m.enPassant
  -- make_move_castling_checks
  let b := if m.isCastles then
      match castleRookSquares m.dest with
      | some (rs, rd) => b.movePiece rs rd ⟨.rook, b.turn⟩ none none false
      | none => b
    else b
  let (key, rights) := castlingRevocations m (b.zkey, m.rights)
  let m := { m with rights := rights }
  let b := { b with zkey := key }
  let b := b.switchTurn
  let b := if b.turn == .white then { b with fullmove := b.fullmove + 1 } else b
  { b with history := m :: b.history }

/-- `unmake_move`; `none` = `expect("No previous move in the board history!")` -/
def Board.unmakeMove? (b : Board) : Option Board :=
  match b.history with
  | [] => none
  | old :: rest =>
    let b := { b with history := rest }
    let b := b.undoMovePiece old.start old.dest old.piece old.promoted old.captured old.enPassant
    let b := if old.isCastles then
        match castleRookSquares old.dest with
        | some (rs, rd) => b.undoMovePiece rs rd ⟨.rook, b.turn.opp⟩ none none false
        | none => b
      else b
    -- revert castling rights in the key: compare the popped record with the new top
    let cur := b.rights
    let key := b.zkey
    let key := if old.rights.wk != cur.wk then key ^^^ zCastle 0 else key
    let key := if old.rights.wq != cur.wq then key ^^^ zCastle 1 else key
    let key := if old.rights.bk != cur.bk then key ^^^ zCastle 2 else key
    let key := if old.rights.bq != cur.bq then key ^^^ zCastle 3 else key
    let key := match b.ep with | some f => key ^^^ zEp f | none => key
    let (ep, key) := match rest.head? with
      | some t => if t.isDoublePush then (some t.dest.file, key ^^^ zEp t.dest.file) else (none, key)
      | none => (none, key)
    let b := { b with zkey := key, ep := ep }
    let b := if b.turn == .white then { b with fullmove := b.fullmove - 1 } else b
    let b := b.switchTurn
    some { b with posHist := b.posHist.erase b.zkey }

def Board.unmakeMove (b : Board) : Board := (b.unmakeMove?).getD b

/-! ### Attacks and check -/

/-- `Kind::get_attacks(square, board)` -/
def kindAttacks (k : Kind) (sq : Nat) (occ : BB) : BB :=
  match k.pk with
  | .pawn => pawnAttacks (k.color == .white) sq
  | .king => kingAttacks sq
  | .queen => queenAttacks sq occ
  | .rook => rookAttacks sq occ
  | .bishop => bishopAttacks sq occ
  | .knight => knightAttacks sq

/-- `get_attacked_squares(color)`: union of the attack sets of the *other* colour's pieces -/
def Board.attackedSquares (b : Board) (c : Color) : BB :=
  let attackers := match c with | .white => b.bbs.black | .black => b.bbs.white
  (List.range 64).foldl (fun acc sq =>
    if attackers &&& bit sq == 0 then acc
    else match b.pieceAt (Square.ofIdx sq) with
      | some p => acc ||| kindAttacks p sq b.bbs.all
      | none => acc) 0

/-- `is_in_check(color)` -/
def Board.isInCheck (b : Board) (c : Color) : Bool :=
  let king := match c with | .white => b.bbs.wk | .black => b.bbs.bk
  king &&& b.attackedSquares c != 0

/-! ### Move generation -/

/-- `castling_ability(kind)` for the side to move (the wrong-side `Err` is not reachable from `King::get_moveset`) -/
def Board.castlingAbility (b : Board) (i : Nat) : Bool :=
  let between : BB := match i with
    | 0 => 0x60 | 1 => 0xE | 2 => 0x6000000000000000 | _ => 0x0E00000000000000
  let safe : BB := match i with
    | 0 => 0x70 | 1 => 0x1C | 2 => 0x7000000000000000 | _ => 0x1C00000000000000
  b.rights.get i && (b.bbs.all &&& between == 0) && (b.attackedSquares b.turn &&& safe == 0)

def mkPly (start dest : Square) (piece : Kind) : Ply := { start := start, dest := dest, piece := piece }

def sameColorBB (b : Board) (c : Color) : BB := match c with | .white => b.bbs.white | .black => b.bbs.black

/-- `Pawn::get_moveset` -/
def pawnMoveset (sq : Square) (b : Board) (c : Color) : List Ply :=
  let pc : Kind := ⟨.pawn, c⟩
  let (dr, startRank, epRank, backRank) : Int × Nat × Nat × Nat :=
    match c with | .white => (1, 1, 4, 7) | .black => (-1, 6, 3, 0)
  let enemy := sameColorBB b c.opp
  let caps := (bitIndices (pawnAttacks (c == .white) sq.idx &&& enemy)).map fun s => mkPly sq (Square.ofIdx s) pc
  let next : BB := (match c with
    | .white => shlChecked (shlChecked 1 sq.idx) 8
    | .black => shr (shlChecked 1 sq.idx) 8) &&& b.bbs.all
  let next2 : BB := (match c with
    | .white => shlChecked (shlChecked 1 sq.idx) 16
    | .black => shr (shlChecked 1 sq.idx) 16) &&& b.bbs.all
  let single := if next == 0 then [mkPly sq (sq.add dr 0) pc] else []
  let double := if sq.rank == startRank && next == 0 && next2 == 0
    then [{ mkPly sq ((sq.add dr 0).add dr 0) pc with isDoublePush := true }] else []
  let eps := if sq.rank == epRank then
      let de := (sq.add dr 0).add 0 1
      let dw := (sq.add dr 0).add 0 (-1)
      (if b.ep == some de.file then [{ mkPly sq de pc with enPassant := true, captured := some ⟨.pawn, c.opp⟩ }] else [])
      ++ (if b.ep == some dw.file then [{ mkPly sq dw pc with enPassant := true, captured := some ⟨.pawn, c.opp⟩ }] else [])
    else []
  (caps ++ single ++ double ++ eps).flatMap fun p =>
    if p.dest.rank == backRank then
      [{ mkPly p.start p.dest p.piece with promoted := some ⟨.queen, c⟩ },
       { mkPly p.start p.dest p.piece with promoted := some ⟨.rook, c⟩ },
       { mkPly p.start p.dest p.piece with promoted := some ⟨.knight, c⟩ },
       { mkPly p.start p.dest p.piece with promoted := some ⟨.bishop, c⟩ }]
    else [p]

/-- `King::get_moveset` -/
def kingMoveset (sq : Square) (b : Board) (c : Color) : List Ply :=
  let pc : Kind := ⟨.king, c⟩
  let base := (bitIndices (kingAttacks sq.idx &&& ~~~sameColorBB b c)).map fun s => mkPly sq (Square.ofIdx s) pc
  let w := if sq = ⟨0, 4⟩ && c == .white then
      (if b.castlingAbility 0 then [{ mkPly sq ⟨0, 6⟩ pc with isCastles := true }] else [])
      ++ (if b.castlingAbility 1 then [{ mkPly sq ⟨0, 2⟩ pc with isCastles := true }] else [])
    else []
  let k := if sq = ⟨7, 4⟩ && c == .black then
      (if b.castlingAbility 2 then [{ mkPly sq ⟨7, 6⟩ pc with isCastles := true }] else [])
      ++ (if b.castlingAbility 3 then [{ mkPly sq ⟨7, 2⟩ pc with isCastles := true }] else [])
    else []
  base ++ w ++ k

def simpleMoveset (att : BB) (sq : Square) (b : Board) (pc : Kind) : List Ply :=
  (bitIndices (att &&& ~~~sameColorBB b pc.color)).map fun s => mkPly sq (Square.ofIdx s) pc

/-- `Kind::get_moveset` including its final range/identity filter -/
def kindMoveset (k : Kind) (sq : Square) (b : Board) : List Ply :=
  let ms := match k.pk with
    | .pawn => pawnMoveset sq b k.color
    | .king => kingMoveset sq b k.color
    | .queen => simpleMoveset (queenAttacks sq.idx b.bbs.all) sq b k
    | .rook => simpleMoveset (rookAttacks sq.idx b.bbs.all) sq b k
    | .bishop => simpleMoveset (bishopAttacks sq.idx b.bbs.all) sq b k
    | .knight => simpleMoveset (knightAttacks sq.idx) sq b k
  ms.filter fun m => m.start.rank < 8 && m.start.file < 8 && m.dest.rank < 8 && m.dest.file < 8 && m.start != m.dest

/-- `get_all_moves`: pseudo-legal moves of the side to move in generation order, captured piece filled in -/
def Board.allMoves (b : Board) : List Ply :=
  (List.range 64).flatMap fun i =>
    let sq := Square.ofIdx i
    match b.pieceAt sq with
    | some p =>
      if b.turn != p.color then [] else
      (kindMoveset p sq b).map fun m =>
        if m.enPassant then { m with captured := b.pieceAt ⟨m.start.rank, m.dest.file⟩ }
        else { m with captured := b.pieceAt m.dest }
    | none => []

/-- `is_legal_move`: make, test the mover's king, unmake — returns the verdict and the board afterwards -/
def Board.isLegalMove (b : Board) (m : Ply) : Bool × Board :=
  let b1 := b.makeMove m
  (!b1.isInCheck m.piece.color, b1.unmakeMove)

/-- `get_legal_moves`: the list and the board as it is left behind -/
def Board.legalMoves (b : Board) : List Ply × Board :=
  (b.allMoves).foldl (fun (acc : List Ply × Board) m =>
    let (ok, b') := acc.2.isLegalMove m
    (if ok then acc.1 ++ [m] else acc.1, b')) ([], b)

/-- functional version used where the Rust code's board is known to be restored (C02) -/
def Board.legalMovesPure (b : Board) : List Ply :=
  b.allMoves.filter fun m => !(b.makeMove m).isInCheck m.piece.color

def fileChar (f : Nat) : Char := Char.ofNat (97 + f)
def rankChar (r : Nat) : Char := Char.ofNat (49 + r)

/-- `Square`'s `Display` for in-range squares -/
def Square.name (s : Square) : String := String.ofList [fileChar s.file, rankChar s.rank]

/-- `Ply::to_notation` (`unreachable!` for a pawn/king promotion piece is rendered as `?`) -/
def Ply.notation (p : Ply) : String :=
  p.start.name ++ p.dest.name ++
    (match p.promoted with
     | some ⟨.queen, _⟩ => "q" | some ⟨.rook, _⟩ => "r" | some ⟨.bishop, _⟩ => "b" | some ⟨.knight, _⟩ => "n"
     | some _ => "?" | none => "")

/-- `find_move` -/
def Board.findMove (b : Board) (s : String) : Option Ply × Board :=
  let (ms, b') := b.legalMoves
  (ms.find? fun m => m.notation == s, b')

end RCE
