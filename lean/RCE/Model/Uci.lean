import RCE.Model.Search
import RCE.Model.Fen
/-! The UCI layer (`src/uci/uci_command.rs`, `src/uci.rs`, after the `fix:` commits): the token parser with
    every slice / index operation as an explicit partial operation (`none` = the Rust panic), the
    command loop, `load_position`.  The search thread is abstract here (a `go` is recorded; the
    two-thread protocol is `Model/Conc.lean`). -/
namespace RCE.Uci

inductive PositionKind
  | startpos
  | fen (fen : String)
deriving DecidableEq, Repr, Inhabited

inductive Cmd
  | uci | isready | ucinewgame | stop | quit
  | setoption (name : String) (value : Option String)
  | position (kind : PositionKind) (moves : Option (List String))
  | go (limits : GoLimits)
deriving DecidableEq, Repr, Inhabited

/-- outcome of parsing one token list: a command, a rejection (`Err`), or a panic of the input thread -/
inductive Parsed
  | ok (c : Cmd)
  | rejected (msg : String)
  | panic (site : String)
deriving DecidableEq, Repr, Inhabited

/-- `args[a..]`; `none` = slice start out of range (Rust panics) -/
def sliceFrom? (l : List String) (a : Nat) : Option (List String) :=
  if a ≤ l.length then some (l.drop a) else none

/-- `args[a..b]`; `none` = `a > b` or `b > len` (Rust panics) -/
def slice? (l : List String) (a b : Nat) : Option (List String) :=
  if a ≤ b ∧ b ≤ l.length then some ((l.take b).drop a) else none

/-- `str::parse` for an unsigned integer type of `bits` bits: optional `+`, then one or more ASCII digits, no overflow -/
def parseUnsigned? (bits : Nat) (s : String) : Option Nat :=
  let cs := s.toList
  let ds := match cs with | '+' :: r => r | r => r
  if ds.isEmpty then none else
  match ds.foldl (fun (acc : Option Nat) c => match acc with
      | none => none
      | some n => if c.isDigit then some (n * 10 + (c.toNat - 48)) else none) (some 0) with
  | some n => if n < 2 ^ bits then some n else none
  | none => none

/-- `char::to_lowercase` for ASCII and for the non-ASCII characters the correspondence streams use (among them the ones whose
    lower-case form has another UTF-8 length: U+023A/U+023E grow, the Kelvin sign and capital sharp s shrink, dotted capital I
    becomes two characters); every other character is left alone, as Rust leaves caseless characters alone -/
def lowerChar (c : Char) : List Char :=
  if c = 'É' then ['é'] else if c = 'Ä' then ['ä'] else if c = 'Ω' then ['ω']
  else if c = 'Ⱥ' then ['ⱥ'] else if c = 'Ⱦ' then ['ⱦ']
  else if c = 'K' then ['k'] else if c = 'ẞ' then ['ß']
  else if c = 'İ' then ['i', '\u0307']
  else [c.toLower]

/-- `str::to_lowercase` (named for its ASCII core; see `lowerChar` for the non-ASCII characters covered) -/
def asciiLower (s : String) : String := String.ofList (s.toList.flatMap lowerChar)

def joinSp (l : List String) : String := " ".intercalate l

/-- `parse_option` (after the fix: value before name and empty name are rejected) -/
def parseOption (args : List String) : Parsed :=
  if args.length < 2 then .rejected "Not enough arguments for setoption" else
  match args.idxOf? "name" with
  | none => .rejected "No name provided to setoption!"
  | some nameIdx =>
    if args.length < nameIdx + 2 then .rejected "Not enough arguments for setoption" else
    let valueIdx := args.idxOf? "value"
    let value : Except Parsed (Option String) := match valueIdx with
      | some idx =>
        if idx < nameIdx then .error (.rejected "The value must follow the name in setoption!")
        else if args.length > idx then
          match sliceFrom? args (idx + 1) with
          | some r => .ok (some (asciiLower (joinSp r)))
          | none => .error (.panic "args[idx + 1..]")
        else .error (.rejected "No value provided but value command specified to setoption!")
      | none => .ok none
    match value with
    | .error e => e
    | .ok value =>
      let nameToks := match valueIdx with
        | none => sliceFrom? args (nameIdx + 1)
        | some e => slice? args (nameIdx + 1) e
      match nameToks with
      | none => .panic "args[name_idx + 1..end_idx]"
      | some toks =>
        let name := asciiLower (joinSp toks)
        if name.isEmpty then .rejected "No name provided to setoption!" else .ok (.setoption name value)

/-- the position kind of `parse_position` -/
def positionKind (args : List String) (a0 : String) : Except Parsed PositionKind :=
  if a0 = "startpos" then .ok .startpos
  else if a0 = "fen" then
    if args.length < 7 then .error (.rejected "No FEN specified!")
    else match slice? args 1 7 with
      | some f => .ok (.fen (joinSp f))
      | none => .error (.panic "args[1..7]")
  else .error (.rejected ("Unrecognized position command: " ++ a0))

/-- the optional move list of `parse_position` -/
def positionMoves (args : List String) (kind : PositionKind) : Except Parsed (Option (List String)) :=
  match kind with
  | .startpos =>
    if args.length > 2 ∧ args[1]? = some "moves" then
      match sliceFrom? args 2 with | some m => .ok (some m) | none => .error (.panic "args[2..]")
    else .ok none
  | .fen _ =>
    if args.length > 8 ∧ args[7]? = some "moves" then
      match sliceFrom? args 8 with | some m => .ok (some m) | none => .error (.panic "args[8..]")
    else .ok none

/-- `parse_position` -/
def parsePosition (args : List String) : Parsed :=
  match args with
  | [] => .rejected "No position specified!"
  | a0 :: _ =>
    match positionKind args a0 with
    | .error e => e
    | .ok kind =>
      match positionMoves args kind with
      | .error e => e
      | .ok moves => .ok (.position kind moves)

/-- the `while idx < args.len()` loop of `parse_go` (after the fix: a missing value is rejected) -/
def parseGoAux : Nat → List String → GoLimits → Parsed
  | 0, _, l => .ok (.go l)
  | _ + 1, [], l => .ok (.go l)
  | fuel + 1, tok :: rest, l =>
    let withValue (bits : Nat) (what : String) (set : Nat → GoLimits) : Parsed :=
      match rest with
      | [] => .rejected "Failed to parse go command: Missing value in go command!"
      | v :: rest' => match parseUnsigned? bits v with
        | some n => parseGoAux fuel rest' (set n)
        | none => .rejected ("Failed to parse go command: Failed to parse " ++ what ++ " value")
    if tok = "searchmoves" ∨ tok = "ponder" ∨ tok = "movestogo" ∨ tok = "mate" then parseGoAux fuel rest l
    else if tok = "wtime" then withValue 128 "wtime" (fun n => { l with wtime := some n })
    else if tok = "btime" then withValue 128 "btime" (fun n => { l with btime := some n })
    else if tok = "winc" then withValue 128 "winc" (fun n => { l with winc := some n })
    else if tok = "binc" then withValue 128 "binc" (fun n => { l with binc := some n })
    else if tok = "depth" then withValue 8 "depth" (fun n => { l with depth := some n })
    else if tok = "nodes" then withValue 64 "nodes" (fun n => { l with nodes := some n })
    else if tok = "movetime" then withValue 128 "movetime" (fun n => { l with movetime := some n })
    else if tok = "infinite" then .ok (.go {})
    else .rejected "Failed to parse go command: Invalid go command!"

def parseGo (args : List String) : Parsed := parseGoAux (args.length + 1) args {}

/-- `UCICommand::new` -/
def parseCommand (args : List String) : Parsed :=
  match args with
  | [] => .rejected "No command specified!"
  | c :: rest =>
    if c = "uci" then .ok .uci
    else if c = "isready" then .ok .isready
    else if c = "ucinewgame" then .ok .ucinewgame
    else if c = "setoption" then parseOption rest
    else if c = "position" then parsePosition rest
    else if c = "go" then parseGo rest
    else if c = "stop" then .ok .stop
    else if c = "quit" then .ok .quit
    else .rejected ("Unrecognized command: " ++ c)

/-- `line.trim().split_whitespace()` on ASCII input: maximal runs of non-whitespace characters -/
def tokenize (line : String) : List String :=
  (RCE.splitWs line.toList).map String.ofList

/-- `load_position`: apply the moves on a scratch board; `Except.error` leaves the session untouched;
    `none` = `Board::from_fen` panicked (invalid FEN: outside the property's assumption) -/
def loadPosition (kind : PositionKind) (moves : Option (List String)) : Option (Except String Board) :=
  let start : Option Board := match kind with
    | .startpos => some Board.start
    | .fen f => Board.fromFen? f.toList
  match start with
  | none => none
  | some b0 =>
    some ((moves.getD []).foldlM (fun (b : Board) (mv : String) =>
      match (b.findMove mv).1 with
      | some m => .ok (b.makeMove m)
      | none => .error ("Invalid move: " ++ mv)) b0)

/-- the input thread's state: the session position, what was printed, how many searches were started -/
structure Session where
  board : Board := Board.start
  out : List String := []
  err : List String := []
  goes : List GoLimits := []
  stops : Nat := 0
  exited : Bool := false
  panicked : Option String := none
deriving Inhabited

/-- `execute_command` (the `go` / `stop` effects on the search thread are recorded, not performed) -/
def execute (s : Session) (c : Cmd) : Session :=
  match c with
  | .uci => { s with out := s.out ++ ["id name", "id author", "option", "option", "option", "uciok"] }
  | .isready => { s with out := s.out ++ ["readyok"] }
  | .ucinewgame => { s with board := Board.start }
  | .position kind moves =>
    match loadPosition kind moves with
    | none => { s with panicked := some "Board::from_fen" }
    | some (.ok b) => { s with board := b }
    | some (.error e) => { s with err := s.err ++ ["Failed to execute command: Failed to load position: " ++ e] }
  | .go l => { s with goes := s.goes ++ [l] }
  | .stop => { s with stops := s.stops + 1 }
  | .quit => { s with exited := true }
  | .setoption name value =>
    { s with out := s.out ++ [name, toString value], err := s.err ++ ["Failed to set option: Setting options is not implemented yet"] }

/-- one iteration of `uci_loop` on a line that was read successfully -/
def stepLine (s : Session) (line : String) : Session :=
  if s.exited ∨ s.panicked.isSome then s else
  match parseCommand (tokenize line) with
  | .rejected msg => { s with err := s.err ++ ["Failed to parse command: " ++ msg] }
  | .panic site => { s with panicked := some site }
  | .ok .quit => { s with exited := true }
  | .ok c => execute s c

/-- the whole loop: lines until `quit`, then end of input (`read_line` returning 0) ends it -/
def runSession (lines : List String) : Session :=
  let s := lines.foldl stepLine {}
  { s with exited := true }

end RCE.Uci
