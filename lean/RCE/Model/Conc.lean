/-! The two-thread protocol of `src/uci.rs` / `src/search.rs` as an interleaving transition system:
    the input thread processes commands one at a time, the search thread advances through its
    labelled points (the `cfg(rce_verif)` schedule points), both share one flag (`Relaxed` atomics on
    one location: modelled as one sequentially consistent cell).  A schedule is any list of labels.

    `fixed = true` is the code after the `fix:` commits (no re-arming store at search entry; the flag is
    cleared before `bestmove` is printed; a `go` that finds the flag cleared joins the previous thread
    instead of refusing).  `fixed = false` is the protocol as it was, kept for the witnesses. -/
namespace RCE.Conc

inductive Cmd
  | go (budget : Option Nat)   -- `none` = infinite; `some k` = ends by itself after k more nodes
  | stop
  | isready
  | position
deriving DecidableEq, Repr

/-- where the search thread is -/
inductive Pc
  | spawned      -- created, `Search::search` not yet entered
  | searching    -- inside the iterations
  | clearing     -- search over, about to clear the flag (fixed protocol only)
  | printing     -- about to print `bestmove`
  | printed      -- `bestmove` is out, about to run the final `stop()`
  | exited       -- thread function returned (`JoinHandle::is_finished`)
deriving DecidableEq, Repr

structure St where
  script : List Cmd
  thread : Option Pc := none
  flag : Bool := false
  budget : Option Nat := none
  bestmoves : Nat := 0
  readyoks : Nat := 0
  accepted : Nat := 0
  refused : Nat := 0
  /-- node steps of the current search taken after a `stop` was processed for it -/
  nodesAfterStop : Nat := 0
  stopSeen : Bool := false
deriving DecidableEq, Repr

inductive Lbl | main | search
deriving DecidableEq, Repr

def spawn (s : St) (r : List Cmd) (b : Option Nat) : St :=
  { s with script := r, thread := some .spawned, flag := true, budget := b, accepted := s.accepted + 1,
           nodesAfterStop := 0, stopSeen := false }

/-- one atomic step; `none` = the label is not enabled (nothing to do / blocked) -/
def step (fixed : Bool) (s : St) : Lbl → Option St
  | .main =>
    match s.script with
    | [] => none
    | .isready :: r => some { s with script := r, readyoks := s.readyoks + 1 }
    | .position :: r => some { s with script := r }
    | .stop :: r =>
      some { s with script := r, flag := if s.thread.isSome then false else s.flag,
                    stopSeen := s.stopSeen || (s.thread == some .spawned || s.thread == some .searching) }
    | .go b :: r =>
      match s.thread with
      | none => some (spawn s r b)
      | some .exited => some (spawn s r b)
      | some _ =>
        if fixed then
          if s.flag then some { s with script := r, refused := s.refused + 1 }   -- "Search is already running"
          else none                                                              -- `jh.join()`: blocked until the thread has exited
        else some { s with script := r, refused := s.refused + 1 }
  | .search =>
    match s.thread with
    | some .spawned => some { s with thread := some .searching, flag := if fixed then s.flag else true }
    | some .searching =>
      if !s.flag then some { s with thread := some (if fixed then .clearing else .printing) }
      else match s.budget with
        | some 0 => some { s with thread := some (if fixed then .clearing else .printing) }
        | some (k + 1) => some { s with budget := some k, nodesAfterStop := if s.stopSeen then s.nodesAfterStop + 1 else s.nodesAfterStop }
        | none => some { s with nodesAfterStop := if s.stopSeen then s.nodesAfterStop + 1 else s.nodesAfterStop }
    | some .clearing => some { s with thread := some .printing, flag := false }
    | some .printing => some { s with thread := some .printed, bestmoves := s.bestmoves + 1 }
    | some .printed => some { s with thread := some .exited, flag := false }
    | some .exited => none
    | none => none

/-- run a schedule; labels that are not enabled are skipped (the scheduler picked a thread with nothing to do) -/
def run (fixed : Bool) (s : St) : List Lbl → St
  | [] => s
  | l :: ls => run fixed ((step fixed s l).getD s) ls

def init (script : List Cmd) : St := { script := script }

def countGo : List Cmd → Nat
  | [] => 0
  | .go _ :: r => countGo r + 1
  | _ :: r => countGo r

end RCE.Conc
