import RCE.Model.Bits
import RCE.Gen.Consts
/-! Attack generation as the engine computes it: closed-form rays (`square/rays.rs`), slider masks,
    the slow ray walk, `get_blockers_from_index`, the magic-indexed tables and their lookup
    (`piece/rook.rs`, `piece/bishop.rs`, `piece/queen.rs`), and the shift-and-mask leaper tables
    (`piece/knight.rs`, `piece/king.rs`, `piece/pawn.rs`).  Squares are `rank * 8 + file`. -/
namespace RCE
open Gen

def fileMask (i : Nat) : BB := (listGetD fileMasks i).toUInt64
def rankMask (i : Nat) : BB := (listGetD rankMasks i).toUInt64
def fileA := fileMask 0
def fileB := fileMask 1
def fileG := fileMask 6
def fileH := fileMask 7
def rank1 := rankMask 0
def rank8 := rankMask 7

/-- `Bitboard::shift_east(n)`: n times `(x << 1) & !FILE_A` -/
def shiftEast (b : BB) : Nat → BB
  | 0 => b
  | n+1 => shiftEast ((b <<< 1) &&& ~~~fileA) n

/-- `Bitboard::shift_west(n)`: n times `(x >> 1) & !FILE_H` -/
def shiftWest (b : BB) : Nat → BB
  | 0 => b
  | n+1 => shiftWest ((b >>> 1) &&& ~~~fileH) n

/-- `Bitboard::trim_edges` -/
def trimEdges (b : BB) : BB := b &&& ~~~rank1 &&& ~~~rank8 &&& ~~~fileA &&& ~~~fileH

/-- Direction indices as in `enum Direction` -/
def dN := 0
def dNE := 1
def dE := 2
def dSE := 3
def dS := 4
def dSW := 5
def dW := 6
def dNW := 7

/-- `init_rays()[idx][dir]` -/
def ray (idx dir : Nat) : BB :=
  let rank := idx / 8
  let file := idx % 8
  match dir with
  | 0 => shl 0x0101010101010100 idx
  | 1 => shlChecked (shiftEast 0x8040201008040200 file) (rank * 8)
  | 2 => 2 * (shl 1 (idx ||| 7) - shl 1 idx)
  | 3 => shr (shiftEast 0x0002040810204080 file) ((7 - rank) * 8)
  | 4 => shr 0x0080808080808080 (63 - idx)
  | 5 => shr (shiftWest 0x0040201008040201 (7 - file)) ((7 - rank) * 8)
  | 6 => shl 1 idx - shl 1 (idx &&& 56)
  | _ => shlChecked (shiftWest 0x0102040810204000 (7 - file)) (rank * 8)

/-- the 64 × 8 ray table, computed once -/
def rayTable : Array BB := (Array.range 512).map fun i => ray (i / 8) (i % 8)
@[inline] def rayT (idx dir : Nat) : BB := rayTable.getD (idx * 8 + dir) 0

/-- `Rook::init_masks()[i]` -/
def rookMask (i : Nat) : BB :=
  ray i dN &&& ~~~rank8 ||| ray i dE &&& ~~~fileH ||| ray i dS &&& ~~~rank1 ||| ray i dW &&& ~~~fileA

/-- `Bishop::init_masks()[i]` -/
def bishopMask (i : Nat) : BB :=
  trimEdges (ray i dNE ||| ray i dSE ||| ray i dSW ||| ray i dNW)

/-- one direction of `get_attacks_slow`: clear the ray beyond the first blocker
    (`fwd` = `bitscan_forward`, else `bitscan_reverse`) -/
def cutRay (attacks : BB) (sq dir : Nat) (fwd : Bool) (blockers : BB) : BB :=
  let r := rayT sq dir
  if r &&& blockers != 0 then
    let idx := if fwd then bsf (r &&& blockers) else bsr (r &&& blockers)
    attacks &&& ~~~(rayT idx dir)
  else attacks

/-- `Rook::get_attacks_slow` -/
def rookSlow (sq : Nat) (blockers : BB) : BB :=
  let a := rayT sq dN ||| rayT sq dE ||| rayT sq dS ||| rayT sq dW
  let a := cutRay a sq dN true blockers
  let a := cutRay a sq dE true blockers
  let a := cutRay a sq dS false blockers
  cutRay a sq dW false blockers

/-- `Bishop::get_attacks_slow` -/
def bishopSlow (sq : Nat) (blockers : BB) : BB :=
  let a := rayT sq dNW ||| rayT sq dNE ||| rayT sq dSW ||| rayT sq dSE
  let a := cutRay a sq dNW true blockers
  let a := cutRay a sq dNE true blockers
  let a := cutRay a sq dSW false blockers
  cutRay a sq dSE false blockers

/-- `Magic::get_blockers_from_index(idx, mask)`: deposit the low bits of `idx` on the set bits of `mask` -/
def blockersFromIndexAux (idx : Nat) : Nat → Nat → BB → BB → BB
  | 0, _, _, acc => acc
  | n+1, i, mask, acc =>
    let bitidx := bsf mask
    let mask' := mask &&& (mask - 1)
    let acc' := if idx &&& (1 <<< i) != 0 then acc ||| bit bitidx else acc
    blockersFromIndexAux idx n (i+1) mask' acc'
def blockersFromIndex (idx : Nat) (mask : BB) : BB :=
  blockersFromIndexAux idx (popcount mask) 0 mask 0

/-- `(blockers * magic) >> (64 - bits)` -/
@[inline] def magicIndex (blockers magic : BB) (bits : Nat) : Nat :=
  ((blockers * magic) >>> (64 - bits).toUInt64).toNat

/-- one square of `init_attacks`: a zeroed vector of `size` entries, written for idx in 0..2^bits -/
def fillTable (size bits : Nat) (magic mask : BB) (slow : BB → BB) : Array BB :=
  (List.range (2 ^ bits)).foldl (fun v idx =>
      let blockers := blockersFromIndex idx mask
      v.setIfInBounds (magicIndex blockers magic bits) (slow blockers))
    (Array.replicate size 0)

def rookMagic (sq : Nat) : BB := (listGetD rookMagics sq).toUInt64
def bishopMagic (sq : Nat) : BB := (listGetD bishopMagics sq).toUInt64
def rookBitsAt (sq : Nat) : Nat := listGetD rookBits sq
def bishopBitsAt (sq : Nat) : Nat := listGetD bishopBits sq

def rookMaskTable : Array BB := (Array.range 64).map rookMask
def bishopMaskTable : Array BB := (Array.range 64).map bishopMask

def rookTable : Array (Array BB) := (Array.range 64).map fun sq =>
  fillTable rookTableSize (rookBitsAt sq) (rookMagic sq) (rookMask sq) (rookSlow sq)
def bishopTable : Array (Array BB) := (Array.range 64).map fun sq =>
  fillTable bishopTableSize (bishopBitsAt sq) (bishopMagic sq) (bishopMask sq) (bishopSlow sq)

/-- `Rook::get_attacks(square, blockers)`; `none` = the index panic of the Rust code -/
def rookLookup? (sq : Nat) (blockers : BB) : Option BB :=
  let masked := blockers &&& rookMaskTable.getD sq 0
  let key := magicIndex masked (rookMagic sq) (rookBitsAt sq)
  (rookTable.getD sq #[])[key]?
def bishopLookup? (sq : Nat) (blockers : BB) : Option BB :=
  let masked := blockers &&& bishopMaskTable.getD sq 0
  let key := magicIndex masked (bishopMagic sq) (bishopBitsAt sq)
  (bishopTable.getD sq #[])[key]?

/-- total versions used by the executable model (0 where the Rust code would have panicked;
    `C06` proves that never happens for sq < 64) -/
@[inline] def rookAttacks (sq : Nat) (blockers : BB) : BB := (rookLookup? sq blockers).getD 0
@[inline] def bishopAttacks (sq : Nat) (blockers : BB) : BB := (bishopLookup? sq blockers).getD 0
/-- `Queen::get_attacks` -/
@[inline] def queenAttacks (sq : Nat) (blockers : BB) : BB := rookAttacks sq blockers ||| bishopAttacks sq blockers

/-- `Knight::init_attacks()[idx]` (plain `<<`/`>>` on `Bitboard`: `<<` is the checked one) -/
def knightAttacksAt (idx : Nat) : BB :=
  let o := bit idx
  ((shlChecked o 15 ||| shr o 17) &&& ~~~fileH)
  ||| ((shlChecked o 17 ||| shr o 15) &&& ~~~fileA)
  ||| ((shlChecked o 10 ||| shr o 6) &&& ~~~(fileA ||| fileB))
  ||| ((shlChecked o 6 ||| shr o 10) &&& ~~~(fileG ||| fileH))

/-- `King::init_attacks()[idx]` -/
def kingAttacksAt (idx : Nat) : BB :=
  let o := bit idx
  ((shlChecked o 7 ||| shr o 1 ||| shr o 9) &&& ~~~fileH)
  ||| ((shlChecked o 9 ||| shlChecked o 1 ||| shr o 7) &&& ~~~fileA)
  ||| (shlChecked o 8 ||| shr o 8)

/-- `Pawn::init_attacks()[color][idx]`; `white = true` -/
def pawnAttacksAt (white : Bool) (idx : Nat) : BB :=
  let o := bit idx
  if white then (shlChecked o 9 &&& ~~~fileA) ||| (shlChecked o 7 &&& ~~~fileH)
  else (shr o 9 &&& ~~~fileH) ||| (shr o 7 &&& ~~~fileA)

def knightTable : Array BB := (Array.range 64).map knightAttacksAt
def kingTable : Array BB := (Array.range 64).map kingAttacksAt
def pawnTableW : Array BB := (Array.range 64).map (pawnAttacksAt true)
def pawnTableB : Array BB := (Array.range 64).map (pawnAttacksAt false)

@[inline] def knightAttacks (sq : Nat) : BB := knightTable.getD sq 0
@[inline] def kingAttacks (sq : Nat) : BB := kingTable.getD sq 0
@[inline] def pawnAttacks (white : Bool) (sq : Nat) : BB :=
  if white then pawnTableW.getD sq 0 else pawnTableB.getD sq 0

end RCE
