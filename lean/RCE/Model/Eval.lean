import RCE.Model.Board
/-! `SimpleEvaluator::evaluate` with the exact `i16` operations of the Rust code. -/
namespace RCE
open Gen

def i16Min : Int := -32768
def i16Max : Int := 32767
def satI16 (x : Int) : Int := if x > i16Max then i16Max else if x < i16Min then i16Min else x
def satAdd (a b : Int) : Int := satI16 (a + b)
def satSub (a b : Int) : Int := satI16 (a - b)
/-- `i16::saturating_neg` -/
def satNeg (a : Int) : Int := satI16 (-a)
/-- `x as i16` for a `u32` count followed by a checked `*` (the product is far below the limit for ≤ 64 pieces
    of value ≤ 900 … except that 64 × 900 = 57 600 > 32 767: the Rust multiplication then panics in a
    debug build and wraps in release; positions with that many queens are outside every claim) -/
def wrapI16 (x : Int) : Int := ((x + 32768) % 65536) - 32768

def pkOfIdx : Nat → PK
  | 0 => .pawn | 1 => .king | 2 => .queen | 3 => .rook | 4 => .bishop | _ => .knight

/-- material of colour `c` folded with `op` over the (kind, value) list of one loop, in source order -/
def evalLoop (b : Board) (c : Color) (loop : List (Nat × Nat)) (op : Int → Int → Int) (init : Int) : Int :=
  loop.foldl (fun score kv =>
    op score (wrapI16 ((popcount (b.bbs.get ⟨pkOfIdx kv.1, c⟩) : Int) * (kv.2 : Int)))) init

/-- `SimpleEvaluator::evaluate`: mover's material minus opponent's, saturating at each step -/
def Board.evaluate (b : Board) : Int :=
  let s := evalLoop b b.turn evalLoop0 satAdd 0
  evalLoop b b.turn.opp evalLoop1 satSub s

/-- reverse the byte order: rank r ↦ rank 7 − r (`u64::swap_bytes`) -/
def bswap (x : BB) : BB :=
  (List.range 8).foldl (fun acc i => acc ||| (((x >>> (8 * i).toUInt64) &&& 0xFF) <<< (8 * (7 - i)).toUInt64)) 0

/-- the colour-mirrored position: ranks flipped, colours and side to move swapped -/
def mirrorBoard (b : Board) : Board :=
  let p := b.bbs
  let q : PBB := { wp := bswap p.bp, wk := bswap p.bk, wq := bswap p.bq, wr := bswap p.br, wb := bswap p.bb, wn := bswap p.bn,
                   bp := bswap p.wp, bk := bswap p.wk, bq := bswap p.wq, br := bswap p.wr, bb := bswap p.wb, bn := bswap p.wn,
                   white := bswap p.black, black := bswap p.white, all := bswap p.all }
  { b with bbs := q, turn := b.turn.opp }

/-- the same position with the other side to move -/
def swapTurn (b : Board) : Board := { b with turn := b.turn.opp }

end RCE
