import RCE.Model.SearchCore
import RCE.Model.Eval
/-! The chess instance of the search: `Search::new(board, limits)` / `Search::search` over the bitboard model. -/
namespace RCE
open Search Gen

def kindPos (l : List Nat) (k : Kind) : Nat :=
  -- `iter().position(|&x| x == piece).unwrap_or(0)` where the table entries are all `Kind::X(Color::White)`
  if k.color == .white then (l.idxOf? k.pk.idx).getD 0 else 0

/-- the capture and promotion part of `score_move` -/
def plyStaticScore (m : Ply) : Nat :=
  let cap := match m.captured with
    | some v => bonusCapture + (kindPos victimsAscending v * attackersDescending.length + kindPos attackersDescending m.piece)
    | none => 0
  cap + (if m.promoted.isSome then bonusPromotion else 0)

def chessGame : Game Board Ply where
  allMoves := Board.allMoves
  legal := fun b m => !(b.makeMove m).isInCheck m.piece.color
  play := Board.makeMove
  inCheck := fun b => b.isInCheck b.turn
  eval := Board.evaluate
  fifty := fun b => decide (b.halfmove ≥ 100)
  repeated := fun b => b.positionReached b.zkey
  key := fun b => b.zkey
  isCapture := Ply.isCapture
  isPromotion := Ply.isPromotion
  staticScore := plyStaticScore
  defaultMove := Ply.default

/-- `SearchLimits` of a `go` command -/
structure GoLimits where
  depth : Option Nat := none
  nodes : Option Nat := none
  movetime : Option Nat := none
  wtime : Option Nat := none
  btime : Option Nat := none
  winc : Option Nat := none
  binc : Option Nat := none
deriving Repr, Inhabited, DecidableEq

/-- the limits as `Search::search` sets them up (`time_management_timer` by side to move) -/
def GoLimits.toLimits (g : GoLimits) (turn : Color) : Limits :=
  { nodes := g.nodes, movetime := g.movetime,
    timeControl := g.wtime.isSome || g.winc.isSome || g.btime.isSome || g.binc.isSome,
    timer := match turn with
      | .white => g.wtime.getD 0 / 20 + g.winc.getD 0 / 2
      | .black => g.btime.getD 0 / 20 + g.binc.getD 0 / 2 }

/-- a complete `go` on board `b` (what the search thread does), from the given cache -/
def chessSearch (b : Board) (g : GoLimits) (maxDepth : Option Nat) (clock : Nat → Nat) (stopAtPoll : Nat) (cacheOff : Bool)
    (tt0 : Table Ply) : Result Ply :=
  search { limits := g.toLimits b.turn, clock := clock, stopAtPoll := stopAtPoll, cacheOff := cacheOff } chessGame b maxDepth tt0

end RCE
