import Std.Data.HashMap
/-! The search of `src/search.rs` (after the `fix:` commits), written once over an abstract game
    interface so that the theorems of C09 / C11 / C12 / C13 / C14 / C16 are proved for every game and
    transported to chess by instantiation (`Model/Search.lean`).

    * functional over children: a child node receives `play p m`; the Rust code mutates one board and
      takes the move back — justified by C02 and checked by the trace correspondence (node counts and
      every cache write must coincide);
    * `fuel` = the code's own termination argument (`limits_exceeded` is true at ply 255);
    * the wall clock is a parameter `clock : Nat → Nat` (the k-th reading, in ms) and an external
      `stop` is the parameter `stopAtPoll` (the poll of the running flag at which it is found cleared). -/
namespace RCE.Search

inductive Bound | exact | lower | upper
deriving DecidableEq, Repr, Inhabited

structure Entry (M : Type) where
  score : Int
  depth : Nat
  bound : Bound
  best : M
deriving Repr, Inhabited

abbrev Table (M : Type) := Std.HashMap UInt64 (Entry M)

structure Game (P M : Type) where
  /-- `get_all_moves`: pseudo-legal moves in generation order -/
  allMoves : P → List M
  /-- `is_legal_move(..).is_ok()` -/
  legal : P → M → Bool
  /-- `make_move` -/
  play : P → M → P
  /-- `is_in_check(current_turn)` -/
  inCheck : P → Bool
  /-- `SimpleEvaluator::evaluate` -/
  eval : P → Int
  /-- `get_halfmove_clock() >= 100` -/
  fifty : P → Bool
  /-- `position_reached(zkey)` -/
  repeated : P → Bool
  key : P → UInt64
  isCapture : M → Bool
  isPromotion : M → Bool
  /-- capture (MVV-LVA) and promotion bonuses of `score_move` -/
  staticScore : M → Nat
  defaultMove : M

/-- `SearchLimits` as seen by `limits_exceeded` -/
structure Limits where
  nodes : Option Nat := none
  movetime : Option Nat := none
  /-- any of wtime / btime / winc / binc given -/
  timeControl : Bool := false
  /-- `time_management_timer` computed in `Search::search` -/
  timer : Nat := 0
deriving Repr, Inhabited

/-- the environment a search runs in: limits, the clock, an external stop, the cache switch -/
structure Env where
  limits : Limits := {}
  /-- the k-th `Instant::elapsed()` reading in milliseconds (k = 0, 1, …) -/
  clock : Nat → Nat := fun _ => 0
  /-- 0 = never; k > 0 = the k-th poll of the running flag finds it cleared by the input thread -/
  stopAtPoll : Nat := 0
  /-- verification hook: the cache is emptied before every probe -/
  cacheOff : Bool := false

/-- one cache insert, as reported by the observer hook -/
structure Write (M : Type) where
  site : Nat
  key : UInt64
  entry : Entry M
  nodes : Nat
  running : Bool
  ply : Nat
  /-- model-only: had the search already been aborted (some abort check had fired) when this write happened -/
  afterAbort : Bool

structure St (M : Type) where
  tt : Table M := {}
  nodes : Nat := 0
  ply : Nat := 0
  seldepth : Nat := 0
  killers : Array (Option M × Option M) := Array.replicate 256 (none, none)
  running : Bool := true
  polls : Nat := 0
  clockReads : Nat := 0
  bestMove : Option M := none
  bestScore : Option Int := none
  writes : List (Write M) := []
  /-- model-only: some abort check has returned true -/
  aborted : Bool := false

def MINS : Int := -32768
def MAXS : Int := 32767
def satI16 (x : Int) : Int := if x > MAXS then MAXS else if x < MINS then MINS else x
def satNeg (x : Int) : Int := satI16 (-x)

variable {P M : Type} [DecidableEq M]

/-- `is_running()` with the poll hook -/
def poll (env : Env) (st : St M) : Bool × St M :=
  let polls := st.polls + 1
  let running := if env.stopAtPoll != 0 && polls == env.stopAtPoll then false else st.running
  (running, { st with polls := polls, running := running })

/-- `limits_exceeded(start)` -/
def limitsExceeded (env : Env) (st : St M) : Bool × St M :=
  if st.ply == 255 then (true, st) else
  if (match env.limits.nodes with | some n => decide (st.nodes ≥ n) | none => false) then (true, { st with running := false })
  else
    match env.limits.movetime with
    | some mt =>
      let t := env.clock st.clockReads
      let st := { st with clockReads := st.clockReads + 1 }
      if t ≥ mt then (true, { st with running := false }) else
      let t2 := env.clock st.clockReads
      let st := { st with clockReads := st.clockReads + 1 }
      (t2 ≥ mt || (env.limits.timeControl && t2 ≥ env.limits.timer), st)
    | none =>
      let t2 := env.clock st.clockReads
      let st := { st with clockReads := st.clockReads + 1 }
      (env.limits.timeControl && t2 ≥ env.limits.timer, st)

/-- `!self.is_running() || self.limits_exceeded(start)` -/
def abortCheck (env : Env) (st : St M) : Bool × St M :=
  let (r, st) := poll env st
  if !r then (true, { st with aborted := true }) else
  -- the ply cap makes `limits_exceeded` true without being an interruption of the search
  if st.ply == 255 then (true, st) else
  let (x, st) := limitsExceeded env st
  (x, if x then { st with aborted := true } else st)

/-- `score_move` -/
def scoreMove (G : Game P M) (ttMove : Option M) (killers : Option M × Option M) (m : M) : Nat :=
  if ttMove = some m then 18446744073709551615 else
  let s := G.staticScore m
  if !G.isCapture m && !G.isPromotion m then
    if some m = killers.1 then s + 2000 else if some m = killers.2 then s + 1000 else s
  else s

/-- index of the first maximal score (strict `>` as in `MoveOrderer::next`) -/
def firstMaxAux : List (M × Nat) → Nat → Nat → Nat → Nat
  | [], _, bi, _ => bi
  | x :: xs, i, bi, bs => if x.2 > bs then firstMaxAux xs (i + 1) i x.2 else firstMaxAux xs (i + 1) bi bs

def firstMaxIdx : List (M × Nat) → Nat
  | [] => 0
  | h :: t => firstMaxAux t 1 0 h.2

/-- the selection sort of `MoveOrderer` with its swap: the chosen element is emitted and the head takes its place -/
def orderAux : Nat → List (M × Nat) → List M
  | 0, _ => []
  | _ + 1, [] => []
  | n + 1, h :: t =>
    let j := firstMaxIdx (h :: t)
    if j = 0 then h.1 :: orderAux n t
    else match t[j - 1]? with
      | some x => x.1 :: orderAux n (t.set (j - 1) h)
      | none => h.1 :: orderAux n t

/-- the order in which `MoveOrderer::new(moves, zkey, killers)` yields the moves -/
def orderMoves (G : Game P M) (ttMove : Option M) (killers : Option M × Option M) (ms : List M) : List M :=
  orderAux ms.length (ms.map fun m => (m, scoreMove G ttMove killers m))

/-- a cache insert, with the observer record -/
def St.insert (st : St M) (key : UInt64) (e : Entry M) (site : Nat) : St M :=
  { st with tt := st.tt.insert key e,
            writes := { site := site, key := key, entry := e, nodes := st.nodes, running := st.running, ply := st.ply,
                        afterAbort := st.aborted } :: st.writes }

/-- `store_killers` -/
def storeKillers (G : Game P M) (m : M) (st : St M) : St M :=
  if G.isCapture m || G.isPromotion m then st else
  let k := st.killers.getD st.ply (none, none)
  if k.1 ≠ some m then { st with killers := st.killers.setIfInBounds st.ply (some m, k.1) } else st

/-- the cache probe of `alpha_beta`: either an immediate result or the (possibly tightened) window -/
def probe (tt : Table M) (key : UInt64) (depth : Nat) (alpha beta : Int) : Int ⊕ (Int × Int) :=
  match tt[key]? with
  | some e =>
    if e.depth ≥ depth then
      match e.bound with
      | .exact => .inl e.score
      | .lower => let a := max alpha e.score; if a ≥ beta then .inl e.score else .inr (a, beta)
      | .upper => let b := min beta e.score; if alpha ≥ b then .inl e.score else .inr (alpha, b)
    else .inr (alpha, beta)
  | none => .inr (alpha, beta)

/-- make the move, count the node, search the child with the PVS window logic, come back -/
def pvsChild (G : Game P M) (rec : P → Int → Int → Nat → St M → Int × St M) (p : P) (m : M) (alpha beta : Int)
    (depth : Nat) (pvs updSel : Bool) (st : St M) : Int × St M :=
  let c := G.play p m
  let st := { st with nodes := st.nodes + 1, ply := st.ply + 1 }
  let st := if updSel then { st with seldepth := max st.seldepth st.ply } else st
  let (score, st) :=
    if pvs then
      let (r, st) := rec c (satNeg alpha - 1) (satNeg alpha) (depth - 1) st
      let s := satNeg r
      if alpha < s && s < beta then
        let (r2, st) := rec c (satNeg beta) (satNeg alpha) (depth - 1) st
        (satNeg r2, st)
      else (s, st)
    else
      let (r, st) := rec c (satNeg beta) (satNeg alpha) (depth - 1) st
      (satNeg r, st)
  (score, { st with ply := st.ply - 1 })

inductive QLoop (M : Type) | cut (st : St M) | done (alpha : Int) (st : St M)

def qKids (G : Game P M) (rec : P → Int → Int → St M → Int × St M) (p : P) :
    List M → Int → Int → St M → QLoop M
  | [], alpha, _, st => .done alpha st
  | m :: ms, alpha, beta, st =>
    if !G.legal p m then qKids G rec p ms alpha beta st else
    let c := G.play p m
    let st := { st with nodes := st.nodes + 1, ply := st.ply + 1 }
    let st := { st with seldepth := max st.seldepth st.ply }
    let (r, st) := rec c (satNeg beta) (satNeg alpha) st
    let score := satNeg r
    let st := { st with ply := st.ply - 1 }
    if score ≥ beta then .cut st
    else if score > alpha then qKids G rec p ms score beta st
    else qKids G rec p ms alpha beta st

/-- `quiescence` -/
def quiesce (env : Env) (G : Game P M) : Nat → P → Int → Int → St M → Int × St M
  | 0, _, _, _, st => (0, st)
  | fuel + 1, p, alpha, beta, st =>
    let (a, st) := abortCheck env st
    if a then (0, st) else
    let score := G.eval p
    if score ≥ beta then (beta, st) else
    let alpha := if score > alpha then score else alpha
    let moves := (G.allMoves p).filter G.isCapture
    let killers := st.killers.getD st.ply (none, none)
    let ordered := orderMoves G ((st.tt[G.key p]?).map (·.best)) killers moves
    match qKids G (quiesce env G fuel) p ordered alpha beta st with
    | .cut st => (beta, st)
    | .done alpha st => (alpha, st)

inductive Loop (M : Type)
  | abort (st : St M)
  | cut (st : St M)
  | done (alpha : Int) (best : M) (legalCount : Nat) (st : St M)

/-- the move loop of `alpha_beta` -/
def abKids (env : Env) (G : Game P M) (rec : P → Int → Int → Nat → St M → Int × St M) (p : P) (depth : Nat) :
    List M → Int → Int → M → Bool → Nat → St M → Loop M
  | [], alpha, _, best, _, n, st => .done alpha best n st
  | m :: ms, alpha, beta, best, pvs, n, st =>
    if !G.legal p m then abKids env G rec p depth ms alpha beta best pvs n st else
    let (score, st) := pvsChild G rec p m alpha beta depth pvs true st
    -- the search was cut short below this node: keep nothing derived from the dummy score
    let (ab, st) := abortCheck env st
    if ab then .abort st else
    if score ≥ beta then
      .cut (storeKillers G m (st.insert (G.key p) ⟨score, depth, .lower, m⟩ 2))
    else if score > alpha then abKids env G rec p depth ms score beta m true (n + 1) st
    else abKids env G rec p depth ms alpha beta best pvs (n + 1) st

/-- `alpha_beta` -/
def ab (env : Env) (G : Game P M) : Nat → P → Int → Int → Nat → St M → Int × St M
  | 0, _, _, _, _, st => (0, st)
  | fuel + 1, p, alpha0, beta0, depth, st =>
    let (a, st) := abortCheck env st
    if a then (0, st) else
    if G.fifty p then (0, st) else
    if G.repeated p then (0, st) else
    let st := if env.cacheOff then { st with tt := {} } else st
    match probe st.tt (G.key p) depth alpha0 beta0 with
    | .inl s => (s, st)
    | .inr (alpha, beta) =>
      let depth := if G.inCheck p then depth + 1 else depth
      if depth = 0 then quiesce env G (fuel + 1) p alpha beta st else
      let moves := G.allMoves p
      let killers := st.killers.getD st.ply (none, none)
      let ordered := orderMoves G ((st.tt[G.key p]?).map (·.best)) killers moves
      match abKids env G (ab env G fuel) p depth ordered alpha beta (moves.headD G.defaultMove) false 0 st with
      | .abort st => (0, st)
      | .cut st => (beta, st)
      | .done alpha best n st =>
        if n = 0 then (if G.inCheck p then (MINS + st.ply, st) else (0, st))
        else (alpha, st.insert (G.key p) ⟨alpha, depth, if alpha ≤ alpha0 then .upper else .exact, best⟩ 3)

inductive RootLoop (M : Type)
  | abort (st : St M)
  | done (alpha : Int) (best : M) (legalCount : Nat) (st : St M)

/-- the move loop of `alpha_beta_start` -/
def rootKids (env : Env) (G : Game P M) (rec : P → Int → Int → Nat → St M → Int × St M) (p : P) (depth : Nat) :
    List M → Int → M → Bool → Nat → St M → RootLoop M
  | [], alpha, best, _, n, st => .done alpha best n st
  | m :: ms, alpha, best, pvs, n, st =>
    if !G.legal p m then rootKids env G rec p depth ms alpha best pvs n st else
    let (score, st) := pvsChild G rec p m alpha MAXS depth pvs false st
    let (ab, st) := abortCheck env st
    if ab then
      -- "don't throw out a partial search just because the current move was not searched"
      .abort (if (match st.bestScore with | some s => decide (alpha > s) | none => false)
              then { st with bestScore := some alpha, bestMove := some best } else st)
    else if score > alpha then rootKids env G rec p depth ms score m true (n + 1) st
    else rootKids env G rec p depth ms alpha best pvs (n + 1) st

/-- `alpha_beta_start(depth)` -/
def abStart (env : Env) (G : Game P M) (p : P) (depth : Nat) (st : St M) : St M :=
  let moves := G.allMoves p
  match moves with
  | [] => st
  | m0 :: _ =>
    let killers := st.killers.getD st.ply (none, none)
    let ordered := orderMoves G ((st.tt[G.key p]?).map (·.best)) killers moves
    match rootKids env G (ab env G 255) p depth ordered MINS m0 false 0 st with
    | .abort st => st
    | .done alpha best n st =>
      if n = 0 then st else
      -- "don't save incomplete searches": `is_running() && !limits_exceeded(start)`
      let (a, st) := abortCheck env st
      if a then st else
      let st := st.insert (G.key p) ⟨alpha, depth, .exact, best⟩ 1
      { st with bestScore := some alpha, bestMove := some best }

/-- `get_pv(length)` -/
def getPv (G : Game P M) (tt : Table M) : Nat → P → List M
  | 0, _ => []
  | n + 1, p =>
    match tt[G.key p]? with
    | some e => if G.legal p e.best then e.best :: getPv G tt n (G.play p e.best) else []
    | none => []

inductive ScoreOut | cp (s : Int) | mate (n : Int) | none
deriving DecidableEq, Repr, Inhabited

structure InfoLine (M : Type) where
  depth : Nat
  seldepth : Nat
  nodes : Nat
  score : ScoreOut
  pv : List M
deriving Repr

/-- the fields `log_uci_info` prints (time and nps are dropped: they depend on the clock) -/
def infoLine (depth : Nat) (st : St M) (pv : List M) : InfoLine M :=
  { depth := depth, seldepth := st.seldepth, nodes := st.nodes,
    score := match st.bestScore with
      | some s => if s ≤ MINS + 255 + 1 then .mate (-(((pv.length + 1) / 2 : Nat) : Int))
                  else if s ≥ MAXS - 255 then .mate (((pv.length + 1) / 2 : Nat) : Int) else .cp s
      | none => .none,
    pv := pv }

structure Result (M : Type) where
  infos : List (InfoLine M)
  /-- `none` = `bestmove 0000` -/
  best : Option M
  st : St M

/-- the iterations of `iter_deep`: depth `d`, `d + 1`, … up to `maxDepth` -/
def iterate (env : Env) (G : Game P M) (p : P) (maxDepth : Nat) : Nat → Nat → St M → List (InfoLine M) → St M × List (InfoLine M)
  | 0, _, st, infos => (st, infos)
  | fuel + 1, d, st, infos =>
    if d > maxDepth then (st, infos) else
    let st := abStart env G p d st
    let (a, st) := abortCheck env st
    if a then (st, infos) else
    let pv := getPv G st.tt d p
    iterate env G p maxDepth fuel (d + 1) st (infos ++ [infoLine d st pv])

/-- `Search::search(evaluator, max_depth)` from a fresh `Search::new`, with the given initial cache -/
def search (env : Env) (G : Game P M) (p : P) (maxDepth : Option Nat) (tt0 : Table M) : Result M :=
  let md := maxDepth.getD 255
  let (st, infos) := iterate env G p md md 1 { tt := tt0 } []
  let best := match st.bestMove with
    | some m => some m
    | none => ((G.allMoves p).filter (G.legal p)).head?
  { infos := infos, best := best, st := { st with running := false } }

end RCE.Search
