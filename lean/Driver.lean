import RCE.Driver.Walk
import RCE.Driver.Tables
import RCE.Driver.SearchD
import RCE.Driver.UciD
import RCE.Driver.LegalD
import RCE.Driver.ConcD
import RCE.Driver.PerftD

def main (args : List String) : IO UInt32 := do
  match args with
  | ["walk"] => RCE.Driver.runWalk
  | ["tables"] => RCE.Driver.runTables
  | ["search"] => RCE.Driver.runSearch 20
  | ["search", n] => RCE.Driver.runSearch n.toNat!
  | ["uci"] => RCE.Driver.runUci
  | ["legal"] => RCE.Driver.runLegal
  | ["conc"] => RCE.Driver.runConc
  | ["perft"] => RCE.Driver.runPerft
  | _ => IO.eprintln "usage: driver walk|tables|search|uci < stream"; return 2
