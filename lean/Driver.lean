import RCE.Driver.Walk
import RCE.Driver.Tables

def main (args : List String) : IO UInt32 := do
  match args with
  | ["walk"] => RCE.Driver.runWalk
  | ["tables"] => RCE.Driver.runTables
  | _ => IO.eprintln "usage: driver walk|tables|search|uci < stream"; return 2
