import RCE.Model.Bits
import RCE.Model.Attacks
import RCE.Model.Board
import RCE.Model.Fen
import RCE.Model.Eval
import RCE.Spec.Rules
import RCE.Spec.FenRender
