#!/usr/bin/env python3
"""Confirms a seeded change delivered by a sub-agent in /tmp/seed/<ID>-out against its scratch worktree /tmp/seed/<ID>:
(a) patch only: suite passes, (b) patch + demo: demo fails, (c) demo only: demo passes.  Then copies it to seeded/S-<ID>/."""
import json, os, re, shutil, subprocess, sys

def sh(cmd, cwd, timeout=1800):
    r = subprocess.run(cmd, shell=True, cwd=cwd, capture_output=True, text=True, timeout=timeout)
    return r.returncode, (r.stdout + r.stderr)

def main():
    pid = sys.argv[1]
    name = sys.argv[2] if len(sys.argv) > 2 else f"S-{pid}"
    wt, out = f"/tmp/seed/{pid}", f"/tmp/seed/{pid}-out"
    meta = json.load(open(f"{out}/meta.json"))
    demo_cmd = meta.get("demo_cmd", "")
    m = re.search(r"cargo test --offline\s+(\S+)", demo_cmd)
    test_name = m.group(1) if m else None
    res = {}
    sh("git checkout -q -- . && git clean -fdq .", wt)
    rc, o = sh(f"git apply {out}/patch.diff", wt)
    assert rc == 0, "patch does not apply: " + o
    rc, o = sh("cargo test --offline 2>&1 | grep -E '^test result' | head -1", wt)
    res["suite_with_patch"] = o.strip()
    has_demo_diff = os.path.exists(f"{out}/demo.diff") and os.path.getsize(f"{out}/demo.diff") > 0
    def run_demo():
        if os.path.exists(f"{wt}/demo.sh"):
            sh("cargo build --offline", wt)
            rc, o = sh("bash demo.sh", wt)
            return f"exit {rc}: " + o.strip()[-300:].replace("\n", " | ")
        if has_demo_diff and test_name:
            rc, o = sh(f"cargo test --offline {test_name} 2>&1 | grep -E '^test result|FAILED|panicked' | head -3", wt)
            return o.strip().replace("\n", " | ")
        elif os.path.exists(f"{out}/demo.sh"):
            sh("cargo build --offline", wt)
            rc, o = sh(f"bash {out}/demo.sh", wt)
            return f"exit {rc}: " + o.strip()[-300:].replace("\n", " | ")
        return "no demo"
    if has_demo_diff:
        rc, o = sh(f"git apply {out}/demo.diff", wt)
        assert rc == 0, "demo does not apply on top of patch: " + o
    res["demo_with_patch"] = run_demo()
    sh("git checkout -q -- . && git clean -fdq .", wt)
    if has_demo_diff:
        rc, o = sh(f"git apply {out}/demo.diff", wt)
        assert rc == 0, "demo does not apply alone: " + o
    res["demo_without_patch"] = run_demo()
    sh("git checkout -q -- . && git clean -fdq .", wt)
    dst = f"/verif/seeded/{name}"
    os.makedirs(dst, exist_ok=True)
    for f in os.listdir(out):
        if os.path.isfile(f"{out}/{f}"):
            shutil.copy(f"{out}/{f}", f"{dst}/{f}")
    meta["confirmed"] = res
    meta["breaks_property"] = pid
    json.dump(meta, open(f"{dst}/meta.json", "w"), indent=1)
    print(json.dumps(res, indent=1))

main()
