PENDING_REASON = {}
TEXTS = {
 "C06": {
  "level": "Machine-checked Lean 4 theorems state that the model's attack sets equal the coordinate-stepping spec for all 64 squares "
           "(leapers: knight, king, both pawn colours; sliders: all 2^64 occupancies, via per-square kernel-checked magic-table obligations over the constants "
           "regenerated from the source on every run). The model is tied to the code by a correspondence that is complete on the behaviour-determining domain: "
           "all rays, all leaper entries, all 107,648 (square, relevant subset) lookups (thorough: all ~1.1M line subsets) plus random occupancies. "
           "In addition the leaper tables, the ray table, shift_east / shift_west / trim_edges, the slider masks and the slow ray walks are TRANSLATED from the Rust expressions on every run "
           "(tools/gen_translate.py) and proved equal to the model by the kernel (every square / direction / colour; the slow walks for all 2^64 occupancies), together with the side conditions "
           "under which the Rust arithmetic and indexing cannot overflow or panic: the *_source_* theorems are about definitions regenerated from the source text.",
  "note": "Trusted: Lean kernel (axioms propext, Quot.sound, Classical.choice only), gen_constants.py regex translator for MAGICS/INDEX_BITS/table sizes/file-rank masks, "
          "harness + driver, CPU bit-scan/popcount intrinsics modelled by their definitions. The hand-written model functions (ray formulas, slow walk, fill, lookup) are "
          "validated against the implementation on every enumerated lookup, not verified from the Rust text.",
  "technique": "Lean 4 proof (decide +kernel table obligations lifted by lemmas; initialisers and slow walks translated from the Rust source and kernel-checked against the model) + exhaustive model/implementation correspondence",
 },
 "C05": {
  "level": "Lean theorems over the Zobrist table regenerated from the implementation on every run: for ALL positions, changing exactly one component "
           "(content of one square, side to move, one castling right, en-passant file) changes the from-scratch key; the table obligation (781 words non-zero and pairwise "
           "distinct) is evaluated by the kernel. The indexing of the table by the model is tied to the code by the walk correspondence (keys of every explored position, "
           "781 perturbations of every k-th explored position compared by count and checksum, explored keys bucketed by position identity).",
  "note": "PARTIAL by necessity: the full statement (all pairs of distinct positions) is false for any 64-bit key by counting; it stays visible as C05_statement and is not claimed. "
          "Trusted: Lean kernel, the table dump through the public ZKey API (gen_zobrist.py), harness/driver.",
  "technique": "Lean 4 proof (XOR-fold algebra + decide +kernel over the regenerated table) + differential correspondence on explored positions",
 },
 "C17": {
  "level": "Lean theorems for ALL boards: evaluate(mirror b) = evaluate b unconditionally (identical saturating computations on identical piece counts, via popcount(bswap x) = popcount x), "
           "evaluate(swapTurn b) = -evaluate b under the material bound, with a kernel-checked counter-example showing the bound is needed. Model tied to the code by comparing "
           "the evaluation of every walked position, of its mirror image and of its side-swapped twin (both built through FEN) with the model and with each other; "
           "the body of SimpleEvaluator::evaluate is also translated from the Rust text on every run and proved equal to the model for all boards (eval_source_eq, by rfl), so eval_source_mirror / eval_source_swap are about the regenerated definition.",
  "note": "Trusted: Lean kernel, piece values/loop order regenerated from simple_evaluator.rs by regex, harness/driver. The i16 wrap of count*value for > 36 queens is modelled (wrapI16) but outside the claim.",
  "technique": "Lean 4 proof (bit-permutation lemma, saturating-arithmetic range lemmas; evaluator translated from the source, equality by rfl) + differential correspondence",
 },
 "C02": {
  "level": "Lean theorems for EVERY well-formed board and EVERY generated (pseudo-legal) move: unmake(make(b, m)) = b as a structural equality of the whole state "
           "(15 bitboards, turn, move number, en-passant file, undo stack, repetition record, key); the legality probe and get_legal_moves leave the board unchanged; "
           "n makes followed by n take-backs restore the board for any n. The invariant WF is proved for the start position and preserved by every generated move. "
           "The model is tied to the code by full-state comparison around every make/unmake and legal-move query of the walk stream, including positions that repeat earlier ones.",
  "note": "Trusted: Lean kernel, the hand-written model of make_move/unmake_move/get_all_moves (validated against the implementation on every explored position: complete state dumps, "
          "generation order, legal lists), harness/driver. The repetition record is modelled as a list of keys (most recent first); the Rust count map is its multiset.",
  "technique": "Lean 4 proof (bit-level lemmas, XOR algebra, invariant preservation) + differential correspondence",
 },
 "C04": {
  "level": "Lean theorems for every well-formed board and every generated move: the incrementally maintained key equals the from-scratch key after make, and after any interleaving of makes "
           "and take-backs (induction over operation sequences); the from-scratch key reads only placement, rights, en-passant file and side to move, so transpositions and FEN reloads "
           "give the same key. Proofs use XOR algebra only and are independent of the table values. Correspondence: incremental = from-scratch = FEN-reload key on every explored position, "
           "same identity => same key across the whole run.",
  "note": "Trusted: Lean kernel, hand-written model (validated on every explored position), harness/driver.",
  "technique": "Lean 4 proof (XOR-fold algebra, case analysis on move kinds, induction over op sequences) + differential correspondence",
 },
 "C14": {
  "level": "Lean theorems over the search model, for every game / position / limit combination / clock / stop point: the reported depths are 1,2,...,k with no gap or repeat; "
           "an unlimited depth-N search reports exactly depths 1..N; every principal variation is a sequence of legal moves (the cache only ever stores moves generated in the "
           "position of the key, under KeyMoves) and, at a root with a legal move, has at least one move, legal under the rules of chess (no key hypothesis needed). The search model is tied to the code trace-exactly (info lines, bestmove, every cache insert, counters, cache checksum) on generated "
           "cases incl. interrupted and cache-reusing searches; info lines of the implementation are also checked against the UCI token grammar and each PV is replayed on the rules spec.",
  "note": "Trusted: Lean kernel, the hand-written search model (validated trace-exactly on every explored case), harness/driver, KeyMoves hypothesis for pv_legal. time/nps tokens are not modelled.",
  "technique": "Lean 4 proof (induction over iterations and over the recursion with a frame invariant) + trace-exact differential correspondence",
 },
 "C13": {
  "level": "Lean theorems over the search model, for every game / position / initial cache / node budget / stop point / monotone clock: no cache insert happens after an abort check has fired "
           "(every cached value comes from a completely searched subtree), and from an interrupted state no further node is visited. Tied to the code trace-exactly: for each position the search "
           "is re-run under every node budget 1..N+1 and with a stop at every k-th poll; the observer hook's insert log (nodes, budget, running flag) must show no insert after the interruption and must equal the model's.",
  "note": "Trusted: Lean kernel, hand-written search model (trace-exact correspondence), the observer / poll hooks (cfg rce_verif), harness/driver. Assumes a monotone clock. The ply-255 dummy return is not an interruption.",
  "technique": "Lean 4 proof (invariant: aborted => every later abort check fires; inserts dominated by a non-firing check) + exhaustive interruption-point correspondence",
 },
 "C11": {
  "level": "Lean theorem over the search model for every game, position with a legal move, depth >= 1, initial cache and killers: with the cache neutralised and no limits the root score of the "
           "fail-hard PVS search and the value of the chosen move equal the plain minimax value of the engine's look-ahead game (check extension, capture quiescence with stand-pat, draw cuts, "
           "mate distance, ply cap). Tied to the code: search model trace-exact; root score and chosen-move value compared with an independent reference minimax on generated positions with and without history.",
  "note": "Trusted: Lean kernel, search model, the cache-off hook, harness/driver; the executable reference uses textbook alpha-beta pruning and is PROVED equal to plain negamax (ref_root_value_eq). "
          "EvalBoundedFrom hypothesis (discharged for chess from every well-formed position with bounded promote-everything material: chess_eval_bounded).",
  "technique": "Lean 4 proof (Good-invariant for fail-hard windows, permutation invariance of ordering, induction on fuel) + differential correspondence against a reference minimax",
 },
 "C16": {
  "level": "Lean theorem: with no move time and no clock control the entire search result (best move, score, nodes, info lines, every cache write, the cache) is independent of the clock; the model is a "
           "function of (position incl. history, depth, initial cache) only; the node total of the bench (any list of positions, any depth, limits as Search::new(board, None) sets them, each from a cleared cache) is the same "
           "for every family of clocks (bench_total_clock_indep). Tied to the code: every case run 3x in-process with identical full traces equal to the model's prediction; chains of different searches on one thread with the cache cleared in between (state surviving a search); the real binary "
           "run in separate processes, under 16-way CPU load, and bench twice with equal node totals.",
  "note": "Trusted: Lean kernel, search model (trace-exact), harness/driver. Nondeterminism below the model (e.g. a future HashMap iteration) is only excluded by the repeated-run correspondence.",
  "technique": "Lean 4 proof (non-interference of the clock) + repeated-run / multi-process differential correspondence",
 },
 "C09": {
  "level": "Lean theorems over the search model for every game, position with a legal move, every limit combination, clock, stop point and i16-valued initial cache: the single bestmove answered is a "
           "legal move of the searched position; the ply counter stays in 0..255 (no index / u8 overflow); the time allowance the engine gives itself is at most the mover's own clock + increment and a clock "
           "reading at or past it is noticed at that consultation (after which, by C13, no node is visited). Tied to the code trace-exactly incl. every node budget and stop point (fallback move when the "
           "first iteration is interrupted); the real binary is driven with limit mixes (incl. own clock short / opponent's long, both colours) and consecutive go commands for count, legality, latency and readyok.",
  "note": "PARTIAL for the wall-clock clause: latency is measured on the real binary with an allowance scaled by the measured machine load, a miss must recur on three runs; not proved. Trusted: Lean kernel, search model, hooks, harness/driver, OS scheduling.",
  "technique": "Lean 4 proof (range invariant on returned scores, root-loop invariant) + trace-exact correspondence + process-level timing runs",
 },
 "C07": {
  "level": "Lean theorems for every valid rules position p: the reader model accepts the FEN text render(p) (6- and 4-field) and the loaded board abstracts back to exactly p (placement, side, four rights, "
           "en-passant file, both counters); for consistent p the loaded board is well-formed with key = from-scratch key, so C02/C03/C04 apply from then on. The reader model is tied to Board::from_fen by "
           "comparing full state dumps (and subsequent play) on a generated FEN family incl. castling-letter permutations, 4-field form, extra blanks.",
  "note": "Trusted: Lean kernel, the spec writer Rules.render (short, readable), the hand-written reader model (validated against from_fen on every generated string), harness/driver. Invalid FEN is out of scope.",
  "technique": "Lean 4 proof (run-length placement induction, field splitting, decimal round trip) + differential correspondence",
 },
 "C01": {
  "level": "Lean theorems for every legal-game position (well-formed, both kings present, side that just moved not in check): attacked-square sets and check status equal the rules spec's; the generated "
           "pseudo-legal moves are, as (from,to,promotion) triples, a permutation without duplicates of the spec's; hence the legal moves offered are exactly the spec's legal moves and checkmate / stalemate "
           "are recognised exactly (via C06 for all occupancies and the one-step refinement of C03). Tied to the code by the walk stream: legal sets, check flags, attacked sets vs the spec on every explored position.",
  "note": "Trusted: Lean kernel, the rules spec (validated by published perft numbers), model (validated on every explored position), harness/driver.",
  "technique": "Lean 4 proof (attack exactness lifted through folds; per-piece permutation + nodup; filter transfer) + differential correspondence against an independent rules spec",
 },
 "C03": {
  "level": "Lean refinement theorems: for every legal-game position and every generated move the new board stands for exactly Rules.apply of the old one (placement, side, the four rights, en-passant file, "
           "half-move clock, full-move number); a legal move leads to a legal-game position; by induction the statement holds for legal games of any length from the start position (proved legal) or any "
           "consistent FEN (C07); the repetition record is exactly the list of keys of the earlier positions. Tied to the code by the walk stream against the independent rules state machine.",
  "note": "Trusted: Lean kernel, the textbook state machine Rules.apply (spec), model (validated on every explored position), harness/driver. Counters are Nat in the model (u16 in the code); counters_fit_u16 proves that no u16 addition can wrap within 65,535 minus the starting value plies.",
  "technique": "Lean 4 proof (one-step refinement by move kind + induction over games) + differential correspondence against an independent state machine",
 },
 "C08": {
  "level": "Lean theorems over the UCI model: a refused position command leaves the session position exactly as it was; on success the new position depends on the command alone; a move string is accepted "
           "iff it is the coordinate notation of a legal move, the move made is that legal move, and in a legal-game position the (from,to,promotion) triple identifies it uniquely (via C01); "
           "the accepted game is the fold of make_move over those moves. Tied to the code: the real uci_loop over generated sessions, session position after every command vs model and vs the rules spec.",
  "note": "Trusted: Lean kernel, UCI model (validated per line and per executed command), harness/driver, C01/C03 for the meaning of 'legal'. Assumes valid FEN arguments.",
  "technique": "Lean 4 proof (definitional atomicity, find? lemmas, induction over the move list, nodup transfer from C01) + differential correspondence",
 },
 "C15": {
  "level": "Lean theorems over the UCI model in which every slice / index of the token parser is a partial operation whose failure is a panic outcome: for ALL token lists the parser never panics; "
           "no session of any length (valid FEN arguments) makes the command loop panic, and the loop has ended when the input has; an isready line is answered readyok in every live state; quit ends the loop. "
           "Tied to the code: real parser verdict per generated line (incl. junk numbers, missing values, reordered setoption), real uci_loop per session; real binary for liveness, exit status and time-to-exit.",
  "note": "Trusted: Lean kernel, UCI model (validated per line), harness/driver, OS process handling for the process-level part. read_line on invalid UTF-8 is handled in the code (skip) but not in the model (ASCII sessions).",
  "technique": "Lean 4 proof (case analysis of the parser with explicit partial slices; induction over sessions) + differential correspondence + process-level runs",
 },
 "C10": {
  "level": "Lean theorems over an interleaving model of the two-thread protocol (input thread x search thread x one shared flag), for EVERY script and EVERY schedule of any length: a processed stop is never "
           "overwritten and the stopped search executes no further node; once the answer is being printed the flag is already cleared so the next go is accepted (at once or after waiting for the thread to exit), "
           "never refused; every go is accepted, explicitly refused or still pending and every accepted go is answered exactly once. The same model refutes both clauses for the protocol before the fix: commits "
           "(kernel-checked witnesses). Tied to the code: forced schedules on the real binary through the labelled schedule points; the realised order is replayed on the model.",
  "note": "PARTIAL for wall-clock promptness and OS fairness. Trusted: Lean kernel, the protocol model (its atomic steps are the hook's labelled points; tied by replaying realised traces), hooks, procdrive.py, OS scheduling. "
          "Stderr label order is repaired by two causal facts (a go precedes its thread's entry; an infinite search cannot finish before a stop) because a label is printed after its command's effect.",
  "technique": "Lean 4 proof (invariant induction over arbitrary schedules) + forced-schedule runs of the real binary with trace replay on the model",
 },
 "C12": {
  "level": "PARTIAL. Lean theorems over the search model, for every cache content satisfying the invariant, every limit and interruption: the search keeps the cache mate-sound and a winning mate score at the "
           "root is backed by a forced mate after the chosen move -- PROVIDED no root move mates at once and the initial cache holds no score <= -32767 / >= 32767; both provisos are necessary: the full "
           "statements are refuted by two counter-example games (root beta = MAX coincides with the mate-in-one score, windows below become empty and a fail-hard return is stored as a 'forced mate' lower bound). "
           "Completeness: clause 1 (a mate in one is played after any completed iteration, from the empty cache and after earlier completed searches of the position) is a theorem, its extra key / draw / cache-on "
           "hypotheses each shown necessary by a counter-example; clause 2 (mate in two kept) is a theorem for a quiet key move at 3 plies and for any key move at 4 plies, clause 3 (avoidable mate in one avoided) for depth >= 2, both under "
           "hypotheses excluding transpositions between plies (mate scores are stored ply-relative, unadjusted) and early draws, and both are REFUTED as stated for the abstract search by kernel-checked counter-example games. "
           "On chess positions all three clauses (fresh and pre-loaded caches) are decided by a differential run against a mate solver over the rules spec on mined positions; the search model is tied to the code trace-exactly on the same cases.",
  "note": "Clauses 2 and 3 are not theorems as stated (findings D10, D11 in DESIGN.md; no chess position exhibiting them was found). Trusted: Lean kernel, search model (trace-exact), rules spec + mate solver, harness/driver, KeyMate hypothesis. "
          "statements_refuted takes the two displayed #eval results as hypotheses because Std.HashMap does not reduce in the kernel (they are pinned by #guard_msgs in Proofs/SearchMate.lean).",
  "technique": "Lean 4 proof (cache invariant through PVS, probe, three store sites, aborts, draw cuts) with kernel-checked refutation of the unrestricted statement + oracle-based differential correspondence",
 },
}
