PENDING_REASON = {}
TEXTS = {
 "C06": {
  "level": "Machine-checked Lean 4 theorems state that the model's attack sets equal the coordinate-stepping spec for all 64 squares "
           "(leapers: knight, king, both pawn colours; sliders: all 2^64 occupancies, via per-square kernel-checked magic-table obligations over the constants "
           "regenerated from the source on every run). The model is tied to the code by a correspondence that is complete on the behaviour-determining domain: "
           "all rays, all leaper entries, all 107,648 (square, relevant subset) lookups (thorough: all ~1.1M line subsets) plus random occupancies.",
  "note": "Trusted: Lean kernel (axioms propext, Quot.sound, Classical.choice only), gen_constants.py regex translator for MAGICS/INDEX_BITS/table sizes/file-rank masks, "
          "harness + driver, CPU bit-scan/popcount intrinsics modelled by their definitions. The hand-written model functions (ray formulas, slow walk, fill, lookup) are "
          "validated against the implementation on every enumerated lookup, not verified from the Rust text.",
  "technique": "Lean 4 proof (decide +kernel table obligations lifted by lemmas) + exhaustive model/implementation correspondence",
 },
 "C05": {
  "level": "Lean theorems over the Zobrist table regenerated from the implementation on every run: for ALL positions, changing exactly one component "
           "(content of one square, side to move, one castling right, en-passant file) changes the from-scratch key; the table obligation (781 words non-zero and pairwise "
           "distinct) is evaluated by the kernel. The indexing of the table by the model is tied to the code by the walk correspondence (keys of every explored position, "
           "781 perturbations of every k-th explored position compared by count and checksum, explored keys bucketed by position identity).",
  "note": "PARTIAL by necessity: the full statement (all pairs of distinct positions) is false for any 64-bit key by counting; it stays visible as C05_statement and is not claimed. "
          "Trusted: Lean kernel, the table dump through the public ZKey API (gen_zobrist.py), harness/driver.",
  "technique": "Lean 4 proof (XOR-fold algebra + decide +kernel over the regenerated table) + differential correspondence on explored positions",
 },
 "C17": {
  "level": "Lean theorems for ALL boards: evaluate(mirror b) = evaluate b unconditionally (identical saturating computations on identical piece counts, via popcount(bswap x) = popcount x), "
           "evaluate(swapTurn b) = -evaluate b under the material bound, with a kernel-checked counter-example showing the bound is needed. Model tied to the code by comparing "
           "the evaluation of every walked position, of its mirror image and of its side-swapped twin (both built through FEN) with the model and with each other.",
  "note": "Trusted: Lean kernel, piece values/loop order regenerated from simple_evaluator.rs by regex, harness/driver. The i16 wrap of count*value for > 36 queens is modelled (wrapI16) but outside the claim.",
  "technique": "Lean 4 proof (bit-permutation lemma, saturating-arithmetic range lemmas) + differential correspondence",
 },
 "C02": {
  "level": "Lean theorems for EVERY well-formed board and EVERY generated (pseudo-legal) move: unmake(make(b, m)) = b as a structural equality of the whole state "
           "(15 bitboards, turn, move number, en-passant file, undo stack, repetition record, key); the legality probe and get_legal_moves leave the board unchanged; "
           "n makes followed by n take-backs restore the board for any n. The invariant WF is proved for the start position and preserved by every generated move. "
           "The model is tied to the code by full-state comparison around every make/unmake and legal-move query of the walk stream, including positions that repeat earlier ones.",
  "note": "Trusted: Lean kernel, the hand-written model of make_move/unmake_move/get_all_moves (validated against the implementation on every explored position: complete state dumps, "
          "generation order, legal lists), harness/driver. The repetition record is modelled as a list of keys (most recent first); the Rust count map is its multiset.",
  "technique": "Lean 4 proof (bit-level lemmas, XOR algebra, invariant preservation) + differential correspondence",
 },
 "C04": {
  "level": "Lean theorems for every well-formed board and every generated move: the incrementally maintained key equals the from-scratch key after make, and after any interleaving of makes "
           "and take-backs (induction over operation sequences); the from-scratch key reads only placement, rights, en-passant file and side to move, so transpositions and FEN reloads "
           "give the same key. Proofs use XOR algebra only and are independent of the table values. Correspondence: incremental = from-scratch = FEN-reload key on every explored position, "
           "same identity => same key across the whole run.",
  "note": "Trusted: Lean kernel, hand-written model (validated on every explored position), harness/driver.",
  "technique": "Lean 4 proof (XOR-fold algebra, case analysis on move kinds, induction over op sequences) + differential correspondence",
 },
 "C14": {
  "level": "Lean theorems over the search model, for every game / position / limit combination / clock / stop point: the reported depths are 1,2,...,k with no gap or repeat; "
           "an unlimited depth-N search reports exactly depths 1..N; every principal variation is a sequence of legal moves (the cache only ever stores moves generated in the "
           "position of the key, under KeyMoves). The search model is tied to the code trace-exactly (info lines, bestmove, every cache insert, counters, cache checksum) on generated "
           "cases incl. interrupted and cache-reusing searches; info lines of the implementation are also checked against the UCI token grammar and each PV is replayed on the rules spec.",
  "note": "Trusted: Lean kernel, the hand-written search model (validated trace-exactly on every explored case), harness/driver, KeyMoves hypothesis for pv_legal. time/nps tokens are not modelled.",
  "technique": "Lean 4 proof (induction over iterations and over the recursion with a frame invariant) + trace-exact differential correspondence",
 },
}
