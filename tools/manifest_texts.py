PENDING_REASON = {}
TEXTS = {
 "C06": {
  "level": "Machine-checked Lean 4 theorems state that the model's attack sets equal the coordinate-stepping spec for all 64 squares "
           "(leapers: knight, king, both pawn colours; sliders: all 2^64 occupancies, via per-square kernel-checked magic-table obligations over the constants "
           "regenerated from the source on every run). The model is tied to the code by a correspondence that is complete on the behaviour-determining domain: "
           "all rays, all leaper entries, all 107,648 (square, relevant subset) lookups (thorough: all ~1.1M line subsets) plus random occupancies.",
  "note": "Trusted: Lean kernel (axioms propext, Quot.sound, Classical.choice only), gen_constants.py regex translator for MAGICS/INDEX_BITS/table sizes/file-rank masks, "
          "harness + driver, CPU bit-scan/popcount intrinsics modelled by their definitions. The hand-written model functions (ray formulas, slow walk, fill, lookup) are "
          "validated against the implementation on every enumerated lookup, not verified from the Rust text.",
  "technique": "Lean 4 proof (decide +kernel table obligations lifted by lemmas) + exhaustive model/implementation correspondence",
 },
}
