#!/bin/bash
# usage: tools/try_patch.sh <patch.diff> <prop> [<prop> ...]
# Applies the patch to /repo's working tree, runs the quick checks, restores the tree. Never commits to /repo.
set -u
P="$(realpath "$1")"; shift
cd /verif
if ! git -C /repo diff --quiet; then echo "repo working tree not clean"; exit 2; fi
git -C /repo apply "$P" || { echo "patch does not apply"; exit 2; }
# does it still pass the pinned suite?
if [ "${SKIP_SUITE:-0}" != "1" ]; then
  ( cd /repo && cargo test --offline 2>&1 | grep -E "^test result" | head -1 )
fi
for p in "$@"; do
  python3 tools/check.py "$p" 2>&1 | grep -E "^(OK|VIOLATION|KNOWN|note)" | cut -c1-300
done
git -C /repo checkout -- .
git -C /repo status --short | head -3
