#!/usr/bin/env python3
"""Writes what was observed when the checks were run against the seeded changes of rounds 11 and 12 into their meta.json
(caught_by / how / history / ran) and prints the DESIGN.md table rows.  The observations are recorded here by hand from the
logs of those runs (tools/seed_intake.py confirms each change; RCE_REPO=<patched scratch worktree> python3 tools/check.py <prop>)."""
import json, os, sys

HERE = os.path.dirname(os.path.abspath(__file__))
SEEDED = os.path.join(HERE, "..", "seeded")
RAN = "RCE_REPO=<scratch worktree with patch.diff applied> python3 tools/check.py <prop>  (quick tier, seed 1)"

# id: (caught_by, how, history)
OBS = {}


def obs(i, by, how, hist):
    OBS[i] = (by, how, hist)


def main():
    rows = []
    for i in sorted(OBS, key=lambda x: (int(x[1:x.index("-")]), x)):
        d = os.path.join(SEEDED, i)
        mp = os.path.join(d, "meta.json")
        if not os.path.exists(mp):
            print("missing", i, file=sys.stderr)
            continue
        m = json.load(open(mp))
        by, how, hist = OBS[i]
        m["breaks_property"] = "C" + i.split("-C")[1]
        m["caught_by"], m["how"], m["history"], m["ran"] = by, how, hist, RAN
        json.dump(m, open(mp, "w"), indent=1)
        summ = (m.get("summary") or "").replace("\n", " ").replace("|", "/")[:230]
        need = (m.get("needs_to_manifest") or "").replace("\n", " ").replace("|", "/")[:170]
        rows.append(f"| {i} | {summ} — needs: {need} | {by} | {how}; {hist} |")
    print("\n".join(rows))


if __name__ == "__main__":
    sys.path.insert(0, HERE)
    import seed_annotate as _sa
    import seed_observations  # noqa: F401  (fills seed_annotate.OBS through obs())
    OBS.update(_sa.OBS)
    main()
