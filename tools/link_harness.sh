#!/bin/sh
# Populate /verif/harness/src with symlinks to every entry of /repo/src except main.rs, so that the
# engine's own modules are compiled unchanged, in-process, from the current working tree.
set -e
REPO="${RCE_REPO:-/repo}"
H="$(cd "$(dirname "$0")/.." && pwd)/harness/src"
mkdir -p "$H"
for e in "$H"/*; do
  [ -L "$e" ] && rm -f "$e"
done
for e in "$REPO"/src/*; do
  n="$(basename "$e")"
  [ "$n" = "main.rs" ] && continue
  ln -s "$e" "$H/$n"
done
