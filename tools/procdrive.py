#!/usr/bin/env python3
"""Process-level checks against the real binary (built from /repo with --cfg rce_verif):
timed stdin scripts, forced schedules through the labelled schedule points, liveness and exit."""
import os, signal, random, subprocess, sys, threading, time, json, re

SEEDS = [
    "rnbqkbnr/pppppppp/8/8/8/8/PPPPPPPP/RNBQKBNR w KQkq - 0 1",
    "r3k2r/p1ppqpb1/bn2pnp1/3PN3/1p2P3/2N2Q1p/PPPBBPPP/R3K2R w KQkq - 0 1",
    "8/2p5/3p4/KP5r/1R3p1k/8/4P1P1/8 w - - 0 1",
    "r4rk1/1pp1qppp/p1np1n2/2b1p1B1/2B1P1b1/P1NP1N2/1PP1QPPP/R4RK1 w - - 0 10",
    "4k3/P6P/8/8/8/8/p6p/4K3 w - - 0 1",
    "8/8/4k3/8/2p5/8/B2P2K1/8 w - - 0 1",
    "6b1/r1k3P1/5p2/4p3/4r1p1/2p3P1/2q1P1PB/5BRK b - - 0 39",
    "6k1/5ppp/8/8/8/8/5PPP/R5K1 w - - 0 1",
    "8/8/8/8/8/5k2/7p/7K w - - 0 1",
    "r1bqkb1r/pppp1ppp/2n2n2/4p2Q/2B1P3/8/PPPP1PPP/RNB1K1NR w KQkq - 4 4",
    "rnbqkbnr/pppppppp/8/8/4P3/8/PPPP1PPP/RNBQKBNR b KQkq - 0 1",
    "r3k2r/p1ppqpb1/bn2pnp1/3PN3/1p2P3/2N2Q1p/PPPBBPPP/R3K2R b KQkq - 0 1",
    "r1bq1rk1/pp2b1pp/n1pp1n2/3P1p2/2P1p3/2N1P2N/PP2BPPP/R1BQ1RK1 b - - 2 10",
]


class Engine:
    """One engine process; stdout lines are time-stamped as they arrive."""

    def __init__(self, path, env=None, args=None):
        e = dict(os.environ)
        e.update(env or {})
        self.t0 = time.time()
        self.p = subprocess.Popen([path] + (args or []), stdin=subprocess.PIPE, stdout=subprocess.PIPE, stderr=subprocess.PIPE,
                                  env=e, bufsize=0)
        self.out = []   # (t, line)
        self.err = []
        self.lock = threading.Lock()
        self.th = [threading.Thread(target=self._pump, args=(self.p.stdout, self.out), daemon=True),
                   threading.Thread(target=self._pump, args=(self.p.stderr, self.err), daemon=True)]
        for t in self.th:
            t.start()

    def _pump(self, f, sink):
        for raw in iter(f.readline, b""):
            with self.lock:
                sink.append((time.time() - self.t0, raw.decode(errors="replace").rstrip("\n")))

    def send(self, line):
        try:
            self.p.stdin.write((line + "\n").encode())
            self.p.stdin.flush()
            return True
        except (BrokenPipeError, OSError):
            return False

    def send_raw(self, data):
        try:
            self.p.stdin.write(data)
            self.p.stdin.flush()
            return True
        except (BrokenPipeError, OSError):
            return False

    def lines(self):
        with self.lock:
            return list(self.out)

    def errlines(self):
        with self.lock:
            return list(self.err)

    def wait_for(self, pred, timeout, start_index=0):
        """first stdout line index >= start_index satisfying pred, or None"""
        end = time.time() + timeout
        while time.time() < end:
            ls = self.lines()
            for i in range(start_index, len(ls)):
                if pred(ls[i][1]):
                    return i
            if self.p.poll() is not None:
                time.sleep(0.05)
                ls = self.lines()
                for i in range(start_index, len(ls)):
                    if pred(ls[i][1]):
                        return i
                return None
            time.sleep(0.005)
        return None

    def count(self, prefix, start_index=0):
        return sum(1 for _, l in self.lines()[start_index:] if l.startswith(prefix))

    def close(self, timeout=3.0):
        """close stdin, wait for exit; returns (exit code or None, seconds)"""
        t = time.time()
        try:
            self.p.stdin.close()
        except Exception:
            pass
        try:
            rc = self.p.wait(timeout=timeout)
        except subprocess.TimeoutExpired:
            self.p.kill()
            self.p.wait()
            return None, time.time() - t
        return rc, time.time() - t

    def kill(self):
        try:
            self.p.kill()
            self.p.wait()
        except Exception:
            pass



def load_factor():
    """>= 1: how much slower than its CPU time this process currently runs (other jobs on the machine)."""
    t0, c0 = time.time(), time.process_time()
    x = 0
    for i in range(200000):
        x += i * i
    w, c = time.time() - t0, time.process_time() - c0
    return max(1.0, min(12.0, w / max(c, 1e-6)))


def robust(run, attempts=3):
    """Timing-dependent scenario: `run(scale)` returns its violations.  A violation counts only if it recurs on every
    attempt, each later attempt with more generous allowances and after a pause: a defect of the engine's logic recurs,
    a scheduling hiccup of a loaded machine does not."""
    # three confirmed findings decide the check; exploring the remaining scenarios of a thoroughly broken engine (each one
    # timing out three times) would only make the run long
    if CONFIRMED[0] >= 3:
        return []
    last = []
    for a in range(attempts):
        last = run(load_factor() * (1 + a))
        if not last:
            return []
        time.sleep(0.4 * (a + 1))
    CONFIRMED[0] += 1
    return last


CONFIRMED = [0]


def legal_queries(driver, queries):
    """queries: list of (fen, moves, move); returns list of mismatch lines"""
    if not queries:
        return []
    text = "".join(f"Q {f} | {m} | {mv}\n" for f, m, mv in queries)
    r = subprocess.run([driver, "legal"], input=text, capture_output=True, text=True)
    return [l for l in r.stdout.splitlines() if l.startswith("MISMATCH")]


def viol(prop, kind, detail, **kw):
    d = {"class": "spec", "props": prop, "kind": kind, "raw": f"MISMATCH class=spec props={prop} kind={kind} {detail}", "detail": detail}
    d.update(kw)
    return d


# ------------------------------------------------------------------------------------------------
# C09: every go answered by exactly one legal bestmove, in time, engine responsive afterwards

def limit_mixes(rng, n):
    base = [
        ("depth 1", 3.0), ("depth 2", 4.0), ("depth 3", 8.0), ("nodes 1", 2.0), ("nodes 2", 2.0), ("nodes 50", 2.0), ("nodes 2000", 3.0),
        ("movetime 0", 1.0), ("movetime 1", 1.0), ("movetime 50", 1.0), ("movetime 200", 1.2),
        ("wtime 0 btime 0", 1.0), ("wtime 1 btime 1", 1.0), ("wtime 1000 btime 1000", 1.0), ("wtime 2000 btime 2000 winc 100 binc 100", 1.2),
        ("wtime 0 btime 0 winc 0 binc 0", 1.0), ("btime 500", 1.0), ("wtime 500", 1.0), ("winc 200", 1.0), ("binc 200", 1.0),
        ("depth 2 nodes 10", 2.0), ("depth 4 movetime 30", 1.0), ("nodes 100000 movetime 20", 1.0), ("depth 2 wtime 100 btime 100", 1.0),
        ("movetime 40 wtime 5000 btime 5000", 1.0),
    ]
    rng.shuffle(base)
    return base[:n]


def own_clock_mixes(fen):
    """clock mixes in which only the mover's OWN clock is short: the allowance must come out of it, not out of the opponent's"""
    me, op = ("w", "b") if fen.split()[1] == "w" else ("b", "w")
    return [(f"{me}time 300 {me}inc 0 {op}time 600000 {op}inc 20000", 1.0),
            (f"{op}time 900000 {op}inc 30000 {me}time 40 {me}inc 10", 1.0),
            (f"{me}time 0 {me}inc 0 {op}time 5000 {op}inc 5000", 1.0)]


def time_budget(fen, lim):
    """seconds the limits allow: movetime, and for clock limits the mover's own remaining time plus its increment"""
    t = lim.split()
    kv = {t[i]: int(t[i + 1]) for i in range(0, len(t) - 1, 2) if t[i + 1].isdigit()}
    me = "w" if fen.split()[1] == "w" else "b"
    b = []
    if "movetime" in kv:
        b.append(kv["movetime"] / 1000.0)
    if any(k in kv for k in ("wtime", "btime", "winc", "binc")):
        b.append((kv.get(me + "time", 0) + kv.get(me + "inc", 0)) / 1000.0)
    return min(b) if b else None


def one_go(eng, fen, lim, allow, scale):
    """one `go` in a running session: (violations, bestmove or None, seconds, bestmove line or '')"""
    v = []
    idx = len(eng.lines())
    t = time.time()
    eng.send("go " + lim)
    wait = (allow + 1.0) * scale
    i = eng.wait_for(lambda l: l.startswith("bestmove"), wait, idx)
    dt = time.time() - t
    if i is None:
        return [viol("C09", "no-bestmove", f"fen=[{fen}] go {lim}: no bestmove within {wait:.1f}s stderr={eng.errlines()[-2:]}")], None, dt, ""
    line = eng.lines()[i][1]
    mv = line.split()[1] if len(line.split()) > 1 else ""
    # the time-limited ones must come back within what the limits allow + a scheduling allowance
    budget = time_budget(fen, lim)
    if budget is not None and dt > budget + 0.6 * scale:
        v.append(viol("C09", "late-bestmove", f"fen=[{fen}] go {lim}: {dt:.3f}s (allowed {budget:.3f}s + {0.6 * scale:.1f}s)"))
    time.sleep(0.02)
    # exactly one bestmove for this go, and the engine answers isready afterwards
    idx2 = len(eng.lines())
    eng.send("isready")
    if eng.wait_for(lambda l: l == "readyok", 2.0 * scale, idx2) is None:
        v.append(viol("C09", "not-responsive-after-go", f"fen=[{fen}] go {lim}"))
    nb = sum(1 for _, l in eng.lines()[idx:] if l.startswith("bestmove"))
    if nb != 1:
        v.append(viol("C09", "bestmove-count", f"fen=[{fen}] go {lim}: {nb} bestmove lines"))
    return v, mv, dt, line


def c09_extra(tier, seed, ctx):
    rng = random.Random(seed * 7919 + 1)
    n_pos, n_mix = (4, 9) if tier == "quick" else (len(SEEDS), 25)
    violations, samples, queries, evals, retried = [], [], [], 0, 0
    distinct = set()
    positions = SEEDS[:]
    rng.shuffle(positions)
    # both colours to move
    chosen = positions[:n_pos]
    for colour in ("w", "b"):
        if sum(1 for f in chosen if f.split()[1] == colour) < 2:
            chosen += [f for f in positions if f.split()[1] == colour and f not in chosen][:2]
    for fen in chosen:
        eng = Engine(ctx["engine"])
        eng.send(f"position fen {fen}")
        for lim, allow in own_clock_mixes(fen) + limit_mixes(rng, n_mix):
            v, mv, dt, line = one_go(eng, fen, lim, allow, load_factor())
            evals += 1
            distinct.add((fen, lim))
            if v:
                # again, twice, in fresh sessions with more generous allowances: only a failure that recurs every time counts
                retried += 1
                if mv is None:
                    eng.kill()
                    eng = Engine(ctx["engine"])
                    eng.send(f"position fen {fen}")

                def again(scale):
                    e2 = Engine(ctx["engine"])
                    e2.send(f"position fen {fen}")
                    v2, mv2, _, _ = one_go(e2, fen, lim, allow, scale)
                    if mv2 is not None:
                        queries.append((fen, "", mv2))
                        e2.send("quit")
                        e2.close()
                    else:
                        e2.kill()
                    return v2
                violations += robust(again, attempts=2)
            if mv is not None:
                queries.append((fen, "", mv))
                if len(samples) < 3:
                    samples.append(f"fen=[{fen}] go {lim} -> {line} after {dt * 1000:.0f} ms")
        eng.send("quit")
        rc, _ = eng.close()
        if any("panicked" in l for _, l in eng.errlines()):
            violations.append(viol("C09", "panic-on-stderr", f"fen=[{fen}] stderr={[l for _, l in eng.errlines() if 'panicked' in l][:2]}"))
    # positions with a short forced mate under a comfortable game clock: the iterations become cheap once the mate is seen, so
    # iterative deepening runs on to very high depths (lines 255 plies long) before the allowance is used up
    mates = ["7k/5Q2/8/PP3PR1/8/P5K1/8/8 w - - 0 1", "1K6/8/Q7/8/5R2/7k/8/8 w - - 0 1", "6k1/5ppp/8/8/8/8/8/R3K2R w KQ - 0 1",
             "8/8/8/8/8/5k2/4q3/7K b - - 0 1", "k7/8/1K6/8/8/8/8/7R w - - 0 1"]
    for fen in (mates[:3] if tier == "quick" else mates):
        for lim in ("wtime 24000 btime 24000", "wtime 300000 winc 2000 btime 300000 binc 2000"):
            def deep_mate(scale, fen=fen, lim=lim):
                e2 = Engine(ctx["engine"])
                e2.send(f"position fen {fen}")
                v2, mv2, _, _ = one_go(e2, fen, lim, time_budget(fen, lim) / 20.0 + 2.0, scale)
                v2 = [x for x in v2 if x["kind"] != "late-bestmove"] + (
                    [viol("C09", "panic-on-stderr", f"fen=[{fen}] go {lim}: stderr={[l for _, l in e2.errlines() if 'panicked' in l][:2]}")] if any("panicked" in l for _, l in e2.errlines()) else [])
                if mv2 is not None:
                    queries.append((fen, "", mv2))
                    e2.send("quit")
                    e2.close()
                else:
                    e2.kill()
                return v2
            evals += 1
            distinct.add((fen, lim))
            violations += robust(deep_mate, attempts=2)
    # positions whose capture trees are enormous (the first iteration alone would take minutes): a time limit must still be noticed
    # in the middle of the quiescence search, whatever the kind of limit
    dense = ["3qk3/1q1q1q2/2q1q3/1QQQQQ2/1qqqqq2/2Q1Q3/1Q1Q1Q2/3QK3 w - - 0 1", "4k3/8/qrbnnbrq/1rbnnbrq/QRBNNBR1/QRBNNBRQ/8/4K3 w - - 0 1"]
    for fen in dense:
        for lim in ("movetime 100", "wtime 2000 btime 2000", "wtime 1500 btime 1500 winc 100 binc 100 movetime 300"):
            def dense_case(scale, fen=fen, lim=lim):
                e2 = Engine(ctx["engine"])
                e2.send(f"position fen {fen}")
                v2, mv2, _, _ = one_go(e2, fen, lim, time_budget(fen, lim) + 1.0, scale)
                if mv2 is not None:
                    queries.append((fen, "", mv2))
                    e2.send("quit")
                    e2.close()
                else:
                    e2.kill()
                return v2
            evals += 1
            distinct.add((fen, lim))
            violations += robust(dense_case, attempts=3)
    # a go whose only end is the stop sent right behind it (both lines in one write): still exactly one bestmove, promptly
    for fen in chosen[:3]:
        for go in ("go infinite", "go movetime 600000", "go depth 200", "go"):
            def go_stop(scale, fen=fen, go=go):
                e2 = Engine(ctx["engine"])
                e2.send(f"position fen {fen}")
                e2.send("isready")
                e2.wait_for(lambda l: l == "readyok", 5.0 * scale)
                idx = len(e2.lines())
                e2.send_raw((go + "\nstop\n").encode())
                i = e2.wait_for(lambda l: l.startswith("bestmove"), 3.0 * scale, idx)
                out = []
                if i is None:
                    out.append(viol("C09", "no-bestmove", f"fen=[{fen}] [{go}] and [stop] sent in one write: no bestmove within {3.0 * scale:.1f} s"))
                    e2.kill()
                    return out
                queries.append((fen, "", (e2.lines()[i][1].split() + [""])[1]))
                e2.send("isready")
                if e2.wait_for(lambda l: l == "readyok", 3.0 * scale, i) is None:
                    out.append(viol("C09", "not-ready-after-bestmove", f"fen=[{fen}] [{go}] + [stop]"))
                time.sleep(0.05)
                if e2.count("bestmove", idx) != 1:
                    out.append(viol("C09", "bestmove-count", f"fen=[{fen}] [{go}] + [stop]: {e2.count('bestmove', idx)} bestmove lines"))
                e2.send("quit")
                e2.close()
                return out
            evals += 1
            distinct.add((fen, go + "+stop"))
            violations += robust(go_stop, attempts=3)
    # the position the go is answered for is the one the LAST accepted position command described, whatever came before it
    START = SEEDS[0]
    other = "rnbqkbnr/pppp1ppp/8/4p3/3QP3/8/PPP2PPP/RNB1KBNR w KQkq - 0 3"
    switching = [
        [("position startpos moves e2e4 e7e5", None), (f"position fen {other}", None), ("position startpos moves e2e4 e7e5 g1f3", (START, "e2e4 e7e5 g1f3"))],
        [("position startpos moves e2e4 e7e5", None), ("position startpos moves e2e4 e7e5 zz", None), (f"position fen {START.replace(' 0 1', ' 3 9')} moves e2e4 e7e5 d2d4", (START, "e2e4 e7e5 d2d4"))],
        [(f"position fen {other}", (other, "")), ("position startpos", (START, "")), (f"position fen {other} moves d4e5", (other, "d4e5")), ("position startpos moves d2d4", (START, "d2d4"))],
        [("position startpos moves g1f3 g8f6 f3g1 f6g8 g1f3 g8f6 f3g1 f6g8", (START, "g1f3 g8f6 f3g1 f6g8 g1f3 g8f6 f3g1 f6g8")), ("ucinewgame", None), ("position startpos moves g1f3", (START, "g1f3"))],
    ]
    for script in switching:
        eng = Engine(ctx["engine"])
        for cmd, expect in script:
            eng.send(cmd)
            if expect is None:
                continue
            idx = len(eng.lines())
            eng.send("go depth 2")
            i = eng.wait_for(lambda l: l.startswith("bestmove"), 10.0 * load_factor(), idx)
            evals += 1
            distinct.add(("switch", cmd))
            if i is None:
                violations.append(viol("C09", "no-bestmove", f"after [{cmd}] in a position-switching session"))
                break
            queries.append((expect[0], expect[1], (eng.lines()[i][1].split() + [""])[1]))
        eng.send("quit")
        eng.close()
    for l in legal_queries(ctx["driver"], queries):
        violations.append(viol("C09", "bestmove-not-legal", l))
    return {"violations": violations, "evaluations": evals, "distinct_nontrivial": len(distinct), "samples": samples,
            "process_go_commands": evals, "retried_after_a_timing_miss": retried, "ok": not violations}


# ------------------------------------------------------------------------------------------------
# C10: forced schedules through the labelled schedule points

SCHEDULES = [
    # name, env delays (ms), script [(sleep_ms_before, line)], expected bestmoves, expect_refusals_allowed
    ("stop-before-search-thread-starts", {"search_entry": 300}, [(0, "go infinite"), (20, "stop")], 1),
    ("stop-right-after-spawn", {"after_spawn": 100}, [(0, "go infinite"), (0, "stop")], 1),
    ("stop-during-first-iteration", {}, [(0, "go infinite"), (1, "stop")], 1),
    ("stop-after-first-iteration", {"first_iteration_done": 200}, [(0, "go infinite"), (60, "stop")], 1),
    ("stop-mid-search", {}, [(0, "go infinite"), (300, "stop")], 1),
    ("stop-after-search-ended", {}, [(0, "go depth 2"), (400, "stop"), (50, "go depth 1")], 2),
    ("go-right-after-bestmove-thread-still-alive", {"after_bestmove": 400}, [(0, "go depth 2"), (200, "go depth 2")], 2),
    ("go-between-flag-clear-and-bestmove", {"before_bestmove": 400}, [(0, "go depth 2"), (200, "go depth 1")], 2),
    ("go-before-search-exit", {"search_exit": 400}, [(0, "go depth 1"), (150, "go depth 1"), (600, "go depth 1")], 3),
    ("stop-then-go-immediately", {}, [(0, "go infinite"), (100, "stop"), (0, "go depth 1")], 2),
    ("position-and-isready-during-search", {}, [(0, "go infinite"), (50, "position startpos moves e2e4"), (10, "isready"), (50, "stop")], 1),
    ("double-stop", {}, [(0, "go infinite"), (80, "stop"), (0, "stop")], 1),
    ("stop-with-slow-command-loop", {"command_done": 150}, [(0, "go infinite"), (0, "stop")], 1),
    ("three-quick-rounds", {}, [(0, "go depth 1"), (250, "go depth 1"), (250, "go depth 1")], 3),
    ("go-refused-twice-while-searching", {}, [(0, "go infinite"), (60, "go depth 1"), (30, "go depth 1"), (30, "isready"), (30, "stop")], 1),
    ("go-refused-then-stop-then-go", {}, [(0, "go infinite"), (60, "go depth 1"), (30, "stop"), (150, "go depth 1")], 2),
    ("ucinewgame-and-setoption-during-search", {}, [(0, "go infinite"), (50, "ucinewgame"), (20, "setoption name Hash value 1"), (30, "stop"), (150, "go depth 1")], 2),
    ("ucinewgame-then-go-during-search", {}, [(0, "go infinite"), (50, "ucinewgame"), (30, "go depth 1"), (30, "stop")], 1),
    # stop, then at once a new go, while the stopped search thread has not even looked at the flag yet: the stop must still hold
    ("stop-then-go-before-the-thread-has-started", {"search_entry": 300}, [(0, "go infinite"), (20, "stop"), (0, "go depth 1")], 2),
    ("stop-then-go-with-slow-first-iteration", {"first_iteration_done": 250}, [(0, "go infinite"), (40, "stop"), (0, "go depth 1")], 2),
    # a stop that finds nothing to stop (before the first go; after a finished search was collected) must not be remembered
    ("idle-stop-before-the-first-go", {}, [(0, "stop"), (20, "go infinite"), (100, "stop")], 1),
    ("idle-stops-between-searches", {}, [(0, "go depth 1"), (300, "isready"), (50, "stop"), (0, "stop"), (20, "go infinite"), (100, "stop"), (150, "go depth 1")], 3),
    # lines the parser rejects (no effect, no command_done label) must not swallow what follows them
    ("rejected-line-during-search", {}, [(0, "go infinite"), (50, "debug on"), (30, "stop")], 1),
    ("rejected-lines-then-go", {}, [(0, "ponderhit"), (20, "go depth 1"), (300, "xyzzy 1 2"), (0, "go wtime"), (20, "go depth 1")], 2),
]
REJECTED_LINES = {"debug on", "ponderhit", "xyzzy 1 2", "go wtime"}


def causal_repair(toks, trace):
    """Model labels from the realised stderr trace.  A command's label is printed AFTER its effect, so the search
    thread's reaction can be printed first; two causal facts restore the order of the effects: a go precedes its own
    thread's search_entry, and an infinite search cannot reach before_flag_clear before a stop was executed."""
    ev = []           # ("m", index of command) | ("s", label)
    ci = -1
    for lab in trace:
        lab = lab.split()[1]
        if lab == "command_done":
            if ci == -1:
                ci = 0            # the initial `position fen`
                continue
            if ci < len(toks):
                ev.append(("m", ci))
                ci += 1
        elif lab in ("search_entry", "before_flag_clear", "before_bestmove", "after_bestmove", "search_exit"):
            ev.append(("s", lab))
    # (1) k-th go before the k-th search_entry
    go_idx = [i for i, t in enumerate(toks) if t in ("gi", "gf")]
    for k, gi in enumerate(go_idx):
        entries = [i for i, e in enumerate(ev) if e == ("s", "search_entry")]
        if k < len(entries):
            mpos = next((i for i, e in enumerate(ev) if e == ("m", gi)), None)
            if mpos is not None and mpos > entries[k]:
                e = ev.pop(mpos)
                ev.insert(entries[k], e)
    # (2) a stop after `go infinite` before that search's before_flag_clear
    for k, gi in enumerate(go_idx):
        if toks[gi] != "gi":
            continue
        stop_i = next((i for i in range(gi + 1, len(toks)) if toks[i] == "s"), None)
        clears = [i for i, e in enumerate(ev) if e == ("s", "before_flag_clear")]
        if stop_i is None or k >= len(clears):
            continue
        mpos = next((i for i, e in enumerate(ev) if e == ("m", stop_i)), None)
        if mpos is not None and mpos > clears[k]:
            # every command between the go and the stop was executed before the stop
            for c in range(stop_i, gi, -1):
                mp = next((i for i, e in enumerate(ev) if e == ("m", c)), None)
                cl = next(i for i, e in enumerate(ev) if e == ("s", "before_flag_clear") and True)
                clears = [i for i, e in enumerate(ev) if e == ("s", "before_flag_clear")]
                if mp is not None and mp > clears[k]:
                    e = ev.pop(mp)
                    ev.insert(clears[k], e)
    return ["m" if e[0] == "m" else "s" for e in ev]


def run_schedule(engine, fen, name, delays, script, expected, scale):
    """one forced schedule on one position: violations, legality queries, the trace replayed on the protocol model"""
    v, queries = [], []
    env = {f"RCE_VERIF_DELAY_{k}": str(v_) for k, v_ in delays.items()}
    env["RCE_VERIF_TRACE"] = "1"
    eng = Engine(engine, env=env)
    eng.send(f"position fen {fen}")
    stop_time = None
    gos = 0
    for sleep_ms, line in script:
        time.sleep(sleep_ms / 1000.0)
        eng.send(line)
        if line.startswith("go") and line not in REJECTED_LINES:
            gos += 1
        if line == "stop" and stop_time is None:
            stop_time = time.time() - eng.t0
    # wait until the expected number of bestmoves has arrived (or time out)
    end = time.time() + 4.0 * scale
    while time.time() < end and eng.count("bestmove") < expected:
        time.sleep(0.01)
    time.sleep(0.15)
    nb = eng.count("bestmove")
    refused = sum(1 for _, l in eng.errlines() if "already running" in l)
    trace = [l for _, l in eng.errlines() if l.startswith("sched ")]
    if nb + refused != gos or nb < expected:
        v.append(viol("C10", "go-or-stop-lost", f"schedule={name} fen=[{fen}] go-commands={gos} bestmoves={nb} explicit-refusals={refused} expected-bestmoves={expected} trace={trace[:12]}"))
    # a stop must end the running search promptly
    if stop_time is not None and "infinite" in script[0][1]:
        bm = [t for t, l in eng.lines() if l.startswith("bestmove")]
        extra_delay = sum(delays.values()) / 1000.0
        if not bm or bm[0] - stop_time > 0.5 * scale + extra_delay:
            v.append(viol("C10", "stop-not-prompt", f"schedule={name} fen=[{fen}] stop at {stop_time:.3f}s bestmove at {bm[:1]} allowance={0.5 * scale + extra_delay:.2f}s trace={trace[:12]}"))
    for _, l in eng.lines():
        if l.startswith("bestmove"):
            mv = l.split()[1] if len(l.split()) > 1 else ""
            # the position may have been replaced mid-search: legality is checked for the schedules that keep it
            if not any(("position" in ln or "ucinewgame" in ln) for _, ln in script):
                queries.append((fen, "", mv))
    idx = len(eng.lines())
    eng.send("isready")
    if eng.wait_for(lambda l: l == "readyok", 2.0 * scale, idx) is None:
        v.append(viol("C10", "not-responsive", f"schedule={name} fen=[{fen}]"))
    if any("panicked" in l for _, l in eng.errlines()):
        v.append(viol("C10", "panic-on-stderr", f"schedule={name} stderr={[l for _, l in eng.errlines() if 'panicked' in l][:2]}"))
    sample = f"schedule={name} fen=[{fen}] bestmoves={nb} refusals={refused} realised={trace[:10]}"
    eng.send("quit")
    eng.close()
    # the realised order of the labelled points, replayed on the Lean protocol model
    toks = []
    for _, line in script:
        if line in REJECTED_LINES:
            continue
        t = line.split()
        toks.append("gi" if t[:2] == ["go", "infinite"] else "gf" if t[0] == "go" else "s" if t[0] == "stop" else "r" if t[0] == "isready" else "p")
    labels = causal_repair(toks, trace)
    return v, queries, sample, (name, fen, " ".join(toks), " ".join(labels), nb, refused)


def conc_replay(driver, case):
    """the realised trace of one run on the Lean protocol model: its bestmove / refusal counts must agree"""
    name, fen, t, l, nb, refused = case
    r = subprocess.run([driver, "conc"], input=f"C {t} | {l}\n", capture_output=True, text=True)
    o = next((x for x in r.stdout.splitlines() if x.startswith("R ")), "")
    m = re.search(r"bestmoves=(\d+) refused=(\d+)", o)
    if not m or int(m.group(1)) != nb or int(m.group(2)) != refused:
        return [{"class": "model", "props": "C10", "kind": "protocol-model",
                 "raw": f"MISMATCH class=model props=C10 kind=protocol-model schedule={name} fen=[{fen}] script=[{t}] realised=[{l}] impl=bestmoves={nb},refused={refused} model=[{o}]"}]
    return []


def c10_extra(tier, seed, ctx):
    violations, samples, queries, evals, retried = [], [], [], 0, 0
    distinct = set()
    special = ["rnb1kbnr/pppp1ppp/8/4p3/4PP1q/8/PPPP2PP/RNBQKBNR w KQkq - 1 3",      # in check: b1a3 (first generated) is illegal
               "4k3/8/8/8/8/8/8/r3RK2 w - - 0 1".replace("r3RK2", "rR3K2"),         # pinned piece on the lowest squares
               "r3k2r/8/8/8/8/8/8/R3K2R b KQkq - 0 1"]
    fens = (SEEDS[:1] + special[:2]) if tier == "quick" else (SEEDS[:4] + special)
    reps = 1 if tier == "quick" else 3
    conc_cases, model_mismatches = [], []
    for fen in fens:
        for name, delays, script, expected in SCHEDULES:
            for rep in range(reps):
                if len(violations) >= 3:
                    continue          # three confirmed findings decide the check
                evals += 1
                distinct.add((fen, name))
                # the injected delays force the intended order on a quiet machine; on a loaded one a run can realise another
                # order or miss an allowance: a finding counts only if it recurs on three runs with growing allowances
                for attempt in range(3):
                    v, q, sample, case = run_schedule(ctx["engine"], fen, name, delays, script, expected, load_factor() * (1 + attempt))
                    mm = conc_replay(ctx["driver"], case)
                    if not v and not mm:
                        break
                    retried += 1
                    time.sleep(0.4 * (attempt + 1))
                violations += v
                CONFIRMED[0] += 1 if v else 0
                model_mismatches += mm
                queries += q
                conc_cases.append(case)
                if len(samples) < 3:
                    samples.append(sample)
    # a stop that arrives while the FIRST iteration is still running (eleven queens a side: depth 1 alone takes minutes)
    long_first = "3qk3/1q1q1q2/2q1q3/1QQQQQ2/1qqqqq2/2Q1Q3/1Q1Q1Q2/3QK3 w - - 0 1"
    for name, delays, script, expected in [("stop-during-a-long-first-iteration", {}, [(0, "go infinite"), (120, "stop")], 1),
                                           ("stop-then-go-during-a-long-first-iteration", {}, [(0, "go infinite"), (120, "stop"), (300, "go nodes 1")], 2)]:
        evals += 1
        distinct.add((long_first, name))
        for attempt in range(3):
            v, q, sample, case = run_schedule(ctx["engine"], long_first, name, delays, script, expected, load_factor() * (1 + attempt))
            if not v:
                break
            retried += 1
            time.sleep(0.4 * (attempt + 1))
        violations += v
        queries += q
    # a stop at once on a position the cache already knows from an earlier, deeper search of its parent (as an inner node whose
    # stored move need not be legal): the single bestmove that answers the go must still be a legal move
    warm = [("r3k2r/p1ppqpb1/bn2pnp1/3PN3/1p2P3/2N2Q1p/PPPBBPPP/R3K2R w KQkq - 0 1", "e1d1 a6e2"),
            ("7r/2p3k1/1p1p1qp1/1P1Bp3/p1P2r1P/P7/4R3/Q4RK1 w - - 0 36", "h4h5 f4f1"),
            ("rnbqkbnr/pppppppp/8/8/8/8/PPPPPPPP/RNBQKBNR w KQkq - 0 1", "e2e4 d7d5 f1b5")]
    for fen, line in warm:
        for burst in (["go infinite", "stop"], ["go nodes 1"], ["go movetime 0"]):
            def warm_case(scale, fen=fen, line=line, burst=burst):
                v = []
                eng = Engine(ctx["engine"])
                eng.send(f"position fen {fen}")
                eng.send("go depth 4")
                if eng.wait_for(lambda l: l.startswith("bestmove"), 20.0 * scale) is None:
                    eng.kill()
                    return [viol("C10", "go-or-stop-lost", f"warm-up go depth 4 on [{fen}] not answered")]
                idx = len(eng.lines())
                eng.send(f"position fen {fen} moves {line}")
                eng.send_raw(("\n".join(burst) + "\n").encode())
                i = eng.wait_for(lambda l: l.startswith("bestmove"), 3.0 * scale, idx)
                if i is None:
                    v.append(viol("C10", "go-or-stop-lost", f"fen=[{fen}] moves {line}: {burst} not answered"))
                else:
                    mv = (eng.lines()[i][1].split() + [""])[1]
                    queries.append((fen, line, mv))
                eng.send("quit")
                eng.close()
                return v
            evals += 1
            distinct.add((fen, line, " ".join(burst)))
            violations += robust(warm_case)
    # a go on a finished game (mated or stalemated side to move) is answered at once with no move; whatever it was limited by,
    # the go commands that follow — on a live position — must each still get their bestmove (nothing may stay "running")
    over = ["7k/5Q2/6K1/8/8/8/8/8 b - - 0 1".replace("5Q2", "6Q1"),      # black is mated
            "7k/5Q2/6K1/8/8/8/8/8 b - - 0 1",                             # black is stalemated
            "rnb1kbnr/pppp1ppp/8/4p3/6Pq/5P2/PPPPP2P/RNBQKBNR w KQkq - 1 3"]  # white is mated
    for fen in over:
        for go in ("go infinite", "go wtime 60000 btime 60000", "go movetime 200", "go nodes 1000", "go depth 3", "go"):
            def after_the_end(scale, fen=fen, go=go):
                v = []
                eng = Engine(ctx["engine"])
                eng.send(f"position fen {fen}")
                eng.send(go)
                time.sleep(0.3)
                for k, (pos, g2) in enumerate((("position startpos", "go depth 2"), ("position startpos moves e2e4", "go nodes 200"))):
                    idx = len(eng.lines())
                    eng.send(pos)
                    eng.send(g2)
                    i = eng.wait_for(lambda l: l.startswith("bestmove"), 5.0 * scale, idx)
                    if i is None:
                        v.append(viol("C10", "go-or-stop-lost", f"after [{go}] on the finished game [{fen}]: [{pos}] [{g2}] (go number {k + 2} of the session) got no bestmove; stderr={[l for _, l in eng.errlines()][-2:]}"))
                        break
                    mv = (eng.lines()[i][1].split() + [""])[1]
                    queries.append((SEEDS[0], "" if k == 0 else "e2e4", mv))
                eng.send("quit")
                eng.close()
                return v
            evals += 1
            distinct.add(("finished game", fen, go))
            violations += robust(after_the_end)
    for l in legal_queries(ctx["driver"], queries):
        violations.append(viol("C10", "bestmove-not-legal", l))
    return {"violations": violations, "model_mismatches": model_mismatches, "evaluations": evals, "distinct_nontrivial": len(distinct), "samples": samples,
            "schedules": len(SCHEDULES), "traces_replayed_on_model": len(conc_cases), "retried_after_a_timing_miss": retried, "ok": not violations and not model_mismatches}


# ------------------------------------------------------------------------------------------------
# C15: liveness, exit on quit / end of input

VOCAB = ["uci", "isready", "ucinewgame", "stop", "setoption", "name", "value", "Hash", "position", "startpos", "moves", "go", "depth", "nodes",
         "movetime", "wtime", "btime", "winc", "binc", "infinite", "searchmoves", "ponder", "movestogo", "mate", "e2e4", "e7e5"]
JUNK = ["", "-1", "0", "256", "18446744073709551616", "340282366920938463463374607431768211456", "+5", "1e3", "abc", "E2E4", "e2e9", "ä", "\t", "  ",
        "x" + "é" * 30, "xy" + "€" * 25 + "ß" * 9, "abc" + "𝄞é" * 17, "q" * 200]


def junk_line(rng):
    n = rng.randrange(0, 7)
    toks = [(rng.choice(JUNK) if rng.random() < 0.35 else rng.choice(VOCAB)) for _ in range(n)]
    line = " ".join(toks)
    t = line.split()
    if t[:1] == ["quit"] or t[:2] == ["position", "fen"]:
        line = "x" + line
    # a real `go` that never ends would keep the next go from being accepted; keep them short
    if t[:1] == ["go"] and "infinite" in t:
        line = line.replace("infinite", "depth 1")
    return line


BOUNDARY_NUMS = ["0", "1", "2", "255", "256", "65535", "65536", "2147483647", "2147483648", "4294967295", "4294967296",
                 "9223372036854775807", "9223372036854775808", "18446744073709551615", "18446744073709551616", "-1", "00", "+0"]


def boundary_go(rng):
    """a syntactically plausible go line whose numbers sit on the edges of the integer types (zero divisors, off-by-one, overflow)"""
    keys = ["wtime", "btime", "winc", "binc", "movetime", "nodes", "movestogo", "mate", "depth"]
    parts = ["go"]
    for k in rng.sample(keys, rng.randrange(1, 5)):
        r = rng.random()
        v = "0" if r < 0.3 else rng.choice(BOUNDARY_NUMS) if r < 0.7 else str(rng.randrange(0, 5000))
        if k == "depth" and (not v.isdigit() or int(v) > 3):
            v = rng.choice(["0", "1", "2"])
        parts += [k, v]
    return " ".join(parts)


def c15_extra(tier, seed, ctx):
    rng = random.Random(seed * 104729 + 5)
    violations, samples, evals = [], [], 0
    distinct = set()
    sessions = 12 if tier == "quick" else 120
    E = ctx["engine"]
    # every scenario goes through `robust`: a finding counts only if it recurs on three runs with growing allowances
    for sidx in range(sessions):
        lines = [junk_line(rng) for _ in range(rng.randrange(3, 25))]
        # the lines that used to kill the engine are always in the mix
        lines += ["position startpos moves e2e4 x" + "é" * 30, "xx" + "€é" * 20 + " isready", " ", "\t", "  \t ", ""]
        lines += rng.sample(["go wtime", "setoption name value", "setoption value x name y", "go depth", "go nodes -3", "position", "position startpos moves e2e5",
                             "setoption", "go movetime 99999999999999999999999999999999999999999", "position startpos moves"], 4)
        lines += [boundary_go(rng) for _ in range(8)]
        rng.shuffle(lines)
        mode = sidx % 4
        for l in lines:
            distinct.add(l)
            evals += 1
        info = {}

        def junk_session(scale, lines=lines, mode=mode, sidx=sidx, info=info):
            v = []
            eng = Engine(E)
            for l in lines:
                eng.send(l)
            if mode == 3:
                # a line that is not valid UTF-8, then still alive
                eng.send_raw(b"\xff\xfe junk \xc3\x28\n")
            eng.send("stop")
            time.sleep(0.05)
            idx = len(eng.lines())
            eng.send("isready")
            if eng.wait_for(lambda l: l == "readyok", 5.0 * scale, idx) is None:
                v.append(viol("C15", "not-alive-after-junk", f"session={sidx} alive={eng.p.poll() is None} stderr={[l for _, l in eng.errlines()][-3:]} lines={lines[:8]}"))
            if mode == 0:
                eng.send("quit")
                what = "quit"
            else:
                what = "end-of-input"
            rc, dt = eng.close(3.0 * scale)
            if rc is None:
                v.append(viol("C15", "did-not-exit", f"session={sidx} after {what}: still running after {dt:.1f}s"))
            elif rc != 0:
                v.append(viol("C15", "bad-exit-status", f"session={sidx} after {what}: exit status {rc} stderr={[l for _, l in eng.errlines()][-3:]}"))
            if any("panicked" in l for _, l in eng.errlines()):
                v.append(viol("C15", "panic-on-stderr", f"session={sidx} stderr={[l for _, l in eng.errlines() if 'panicked' in l][:2]} lines={lines[:10]}"))
            info["s"] = f"session {sidx}: {lines[:5]} ... -> {what}: exit {rc} in {dt * 1000:.0f} ms"
            return v
        violations += robust(junk_session)
        if len(samples) < 3:
            samples.append(info.get("s", ""))
    # a go that is refused (a search is running) must not wedge the command loop, however often it is repeated
    # … nor must any other command that arrives while a search is running (options, new game, identification, junk)
    for script in (["go infinite", "go depth 1", "go depth 1", "isready"], ["go", "go", "go", "stop", "isready"], ["go infinite", "go nodes 5", "position startpos", "go movetime 10", "isready"],
                   ["go infinite", "setoption name Hash value 1", "isready"], ["go infinite", "setoption name Threads value 2", "setoption name Move Overhead value 10", "ucinewgame", "isready"],
                   ["go infinite", "uci", "setoption name Nonsense value 3", "setoption", "position startpos moves e2e4", "isready"], ["go", "stop", "setoption name Hash value 1", "isready"],
                   ["BURST", "go infinite", "stop", "go depth 1", "isready"], ["BURST", "position startpos", "go infinite", "stop", "go infinite", "stop", "isready"],
                   ["BURST", "go infinite", "isready", "stop", "ucinewgame", "go nodes 10", "isready"]):
        def refused(scale, script=script):
            v = []
            eng = Engine(E)
            burst = script[0] == "BURST"      # all lines in one write: the commands are processed before the search thread has started
            if burst:
                eng.send_raw(("\n".join(script[1:]) + "\n").encode())
            for l in ([] if burst else script):
                eng.send(l)
                time.sleep(0.05)
            if eng.wait_for(lambda l: l == "readyok", 3.0 * scale) is None:
                v.append(viol("C15", "wedged-after-refused-go", f"script={script}: no readyok within {3 * scale:.0f} s; stderr={[l for _, l in eng.errlines()][-3:]}"))
            eng.send("quit")
            rc, dt = eng.close(3.0 * scale)
            if rc != 0:
                v.append(viol("C15", "quit-not-honoured", f"script={script}: exit {rc} after {dt:.1f}s"))
            return v
        evals += 1
        distinct.add("refused-go: " + " / ".join(script))
        violations += robust(refused)
    # lines whose length sits exactly on, just below and just above a power of two (buffer and chunk boundaries), each followed
    # by a command that must still be obeyed: the position is set after the long line and read back through a depth-1 search
    sizes = [n + d for k in (6, 8, 10, 12, 13, 16, 20) for n in (1 << k,) for d in (-1, 0, 1)] + ([1 << 21, (1 << 21) + 1, 3 << 20] if tier != "quick" else [])
    for size in sizes:
        def boundary(scale, size=size):
            v = []
            eng = Engine(E)
            for filler in (b"x", b"position startpos moves e2e4 "):
                body = (filler * (size // len(filler) + 1))[: size - 1]      # `size` bytes with the newline
                eng.send_raw(body + b"\n")
                idx = len(eng.lines())
                eng.send("isready")
                if eng.wait_for(lambda l: l == "readyok", 5.0 * scale, idx) is None:
                    v.append(viol("C15", "command-after-long-line-lost", f"a line of exactly {size} bytes (filler {filler[:8]!r}), then isready: no readyok; alive={eng.p.poll() is None}"))
                    break
            eng.send("quit")
            rc, dt = eng.close(3.0 * scale)
            if rc != 0:
                v.append(viol("C15", "quit-not-honoured", f"after lines of exactly {size} bytes: exit {rc} after {dt:.1f}s"))
            return v
        evals += 1
        distinct.add(f"boundary-length line {size}")
        violations += robust(boundary)
    # end of input while an unbounded search is running: the engine must still terminate promptly
    for script in (["position startpos", "go infinite"], ["go"], ["position startpos moves e2e4", "go ponder"], ["go depth 200"], ["go infinite", "isready"]):
        def eof_in_search(scale, script=script):
            v = []
            eng = Engine(E)
            for l in script:
                eng.send(l)
            time.sleep(0.15)
            rc, dt = eng.close(3.0 * scale)
            if rc is None:
                v.append(viol("C15", "did-not-exit", f"end of input during {script}: still running after {dt:.1f}s"))
            elif rc != 0:
                v.append(viol("C15", "bad-exit-status", f"end of input during {script}: exit status {rc}"))
            return v
        evals += 1
        distinct.add("EOF after " + " / ".join(script))
        violations += robust(eof_in_search)

    # every go keyword alone with the value 0, and every ordered pair (first keyword 0, second keyword 100), executed on the real
    # binary with either side to move: zero clocks next to a move time, zero increments, zero budgets — arithmetic on the limits
    # (clamps, divisions, subtractions) happens on the input thread and in the search thread before the first node
    GO_KEYS = ["wtime", "btime", "winc", "binc", "movetime", "nodes", "depth"]
    edge_lines = [f"go {k} 0" for k in GO_KEYS + ["movestogo", "mate"]] + [f"go {a} 0 {b} 100" for a in GO_KEYS for b in GO_KEYS if a != b]
    for pos in ("position startpos", "position startpos moves e2e4"):
        def edge_go(scale, pos=pos):
            v = []
            eng = Engine(E)
            eng.send(pos)
            for gl in edge_lines:
                idx = len(eng.lines())
                eng.send(gl)
                if eng.wait_for(lambda l: l.startswith("bestmove"), 0.6 * scale, idx) is None:
                    eng.send("stop")          # rejected line, or a search this go does not bound
                eng.send("isready")
                if eng.wait_for(lambda l: l == "readyok", 4.0 * scale, idx) is None:
                    v.append(viol("C15", "not-alive-after-junk", f"[{pos}] then [{gl}]: no readyok; alive={eng.p.poll() is None} stderr={[l for _, l in eng.errlines()][-2:]}"))
                    eng.kill()
                    return v
            eng.send("quit")
            rc, dt = eng.close(3.0 * scale)
            if rc != 0:
                v.append(viol("C15", "quit-not-honoured", f"edge go lines after [{pos}]: exit {rc} after {dt:.1f}s"))
            if any("panicked" in l for _, l in eng.errlines()):
                v.append(viol("C15", "panic-on-stderr", f"edge go lines after [{pos}]: stderr={[l for _, l in eng.errlines() if 'panicked' in l][:2]}"))
            return v
        evals += len(edge_lines)
        distinct.add("edge go lines after " + pos)
        violations += robust(edge_go)

    # words other engines understand at the console (none is a UCI command of this engine today): whatever the engine does with
    # them — reject them, or one day implement them — it must stay alive and responsive, also with a warm cache whose best line repeats
    CONSOLE = ["d", "eval", "perft 2", "go perft 2", "bench", "debug on", "debug off", "register later", "ponderhit", "flip", "help", "display", "print",
               "fen", "moves", "undo", "new", "xboard", "protover 2", "compiler", "export_net", "hashfull", "tt", "pv", "hash", "board", "show", "info", "?",
               # … and the options the engine advertises, set AFTER a search has filled the cache (an option that is really applied
               # — resizing or clearing the table, say — must not wedge the loop), with values at and beyond the advertised ranges
               "setoption name Hash value 1", "setoption name Hash value 1024", "setoption name Hash value 0", "setoption name Hash value 99999999",
               "setoption name Threads value 1", "setoption name Threads value 0", "setoption name Move Overhead value 0", "setoption name Move Overhead value 5000",
               "ucinewgame", "setoption name Hash value 1"]
    for fen, depth in (("6k1/6p1/8/7Q/8/2q4P/1r4PK/8 w - - 0 1", 4), ("8/8/8/8/8/5k2/4q3/7K b - - 0 1", 5),
                       ("r1bqk1nr/pppp1ppp/2n5/2b1p3/2B1P3/5N2/PPPP1PPP/RNBQK2R w KQkq - 4 4", 6)):
        def console(scale, fen=fen, depth=depth):
            v = []
            eng = Engine(E)
            eng.send(f"position fen {fen}")
            eng.send(f"go depth {depth}")
            if eng.wait_for(lambda l: l.startswith("bestmove"), 30.0 * scale) is None:
                eng.kill()
                return [viol("C15", "no-bestmove", f"fen=[{fen}] go depth {depth}")]
            for w in CONSOLE:
                if w == "bench":
                    continue          # a real bench inside a session is C16's business (minutes)
                idx = len(eng.lines())
                eng.send(w)
                eng.send("isready")
                if eng.wait_for(lambda l: l == "readyok", 4.0 * scale, idx) is None:
                    v.append(viol("C15", "not-alive-after-junk", f"fen=[{fen}] after `go depth {depth}` the line [{w}] is not followed by readyok; alive={eng.p.poll() is None} stderr={[l for _, l in eng.errlines()][-2:]}"))
                    eng.kill()
                    return v
            eng.send("quit")
            rc, dt = eng.close(3.0 * scale)
            if rc != 0:
                v.append(viol("C15", "quit-not-honoured", f"console words after a search: exit {rc} after {dt:.1f}s"))
            return v
        evals += len(CONSOLE)
        distinct.add("console words after a search of " + fen)
        violations += robust(console)

    # quit while an unbounded search is running
    def quit_in_search(scale):
        eng = Engine(E)
        eng.send("go infinite")
        time.sleep(0.1)
        eng.send("quit")
        t = time.time()
        try:
            rc = eng.p.wait(timeout=3.0 * scale)
        except subprocess.TimeoutExpired:
            rc = None
            eng.kill()
        return [] if rc == 0 else [viol("C15", "quit-during-search", f"exit status {rc} after {time.time() - t:.1f}s")]
    evals += 1
    violations += robust(quit_in_search)
    # end of input at every point of a fixed script
    script = ["uci", "isready", "position startpos moves e2e4 e7e5", "go depth 2", "isready", "ucinewgame", "go nodes 100", "stop"]
    for cut in range(len(script) + 1):
        def eof_at(scale, cut=cut):
            eng = Engine(E)
            for l in script[:cut]:
                eng.send(l)
            rc, dt = eng.close(4.0 * scale)
            return [] if rc == 0 else [viol("C15", "eof-exit", f"end of input after {cut} lines: exit {rc} in {dt:.1f}s")]
        evals += 1
        violations += robust(eof_at)
    return {"violations": violations, "evaluations": evals, "distinct_nontrivial": len(distinct), "samples": samples, "ok": not violations}


# ------------------------------------------------------------------------------------------------
# C16: separate processes, CPU load, bench

def canon(lines):
    out = []
    for l in lines:
        if l.startswith("info") or l.startswith("bestmove"):
            t = l.split()
            r, i = [], 0
            while i < len(t):
                if t[i] in ("time", "nps") and i + 1 < len(t):
                    i += 2
                else:
                    r.append(t[i])
                    i += 1
            out.append(" ".join(r))
    return out


TIME_LIMIT_FIELDS = ("movetime", "wtime", "btime", "winc", "binc")


def time_limited(limits_line):
    """the time limits in a `limits ...` trace line (hook `trace_limits`): {} = the search runs under no time limit"""
    kv = dict(t.split("=", 1) for t in limits_line.split()[1:] if "=" in t)
    return {k: kv[k] for k in TIME_LIMIT_FIELDS if kv.get(k, "-") != "-"}


def fixed_depth_run(engine, fen, depth, timeout=30.0, limits_seen=None, stall=0.0):
    eng = Engine(engine, env={"RCE_VERIF_TRACE": "1"})
    eng.send(f"position fen {fen}")
    eng.send(f"go depth {depth}")
    if stall > 0:
        # the whole process frozen for a while in the middle of the search: wall-clock time passes, nothing else changes
        for _ in range(3):
            time.sleep(0.002)
            eng.p.send_signal(signal.SIGSTOP)
            time.sleep(stall)
            eng.p.send_signal(signal.SIGCONT)
    i = eng.wait_for(lambda l: l.startswith("bestmove"), timeout)
    res = canon([l for _, l in eng.lines()])
    eng.send("quit")
    eng.close()
    if limits_seen is not None:
        limits_seen += [l for _, l in eng.errlines() if l.startswith("limits ")]
    return res if i is not None else None


def c16_extra(tier, seed, ctx):
    violations, samples, evals = [], [], 0
    distinct = set()
    fens = SEEDS[:4] if tier == "quick" else SEEDS
    depth = 4 if tier == "quick" else 5
    burners = []
    limits_seen = []
    for fen in fens:
        a = fixed_depth_run(ctx["engine"], fen, depth, limits_seen=limits_seen)
        b = fixed_depth_run(ctx["engine"], fen, depth)
        # under load
        burners = [subprocess.Popen([sys.executable, "-c", "while True: pass"]) for _ in range(16)]
        try:
            c = fixed_depth_run(ctx["engine"], fen, depth, timeout=60.0)
        finally:
            for p in burners:
                p.kill()
                p.wait()
        evals += 3
        distinct.add(fen)
        if a is None or b is None or c is None:
            violations.append(viol("C16", "no-answer", f"fen=[{fen}] depth {depth}"))
        elif not (a == b == c):
            violations.append(viol("C16", "process-runs-differ", f"fen=[{fen}] depth {depth} a={a[-2:]} b={b[-2:]} loaded={c[-2:]}"))
        if len(samples) < 2 and a:
            samples.append(f"fen=[{fen}] depth {depth}: {a[-2:]} (x2 processes, x1 under 16-way load)")
    # positions with a short forced mate (iterations become very cheap once it is seen) and a tactical middlegame, searched once
    # undisturbed and once with the process frozen three times for 150 ms right after the go: a fixed-depth search must not
    # notice that wall-clock time passed
    for fen, d in (("7k/8/6K1/8/8/8/8/R7 w - - 0 1", 6), ("3q1k2/3P1rb1/p6r/1p2Rp2/1P5p/P1N2pP1/5B1P/3QRK2 w - - 1 42", 5),
                   ("1K6/8/Q7/8/5R2/7k/8/8 w - - 0 1", 6), (SEEDS[1], 4)):
        a = fixed_depth_run(ctx["engine"], fen, d, timeout=60.0)
        b = fixed_depth_run(ctx["engine"], fen, d, timeout=60.0, stall=0.15)
        evals += 2
        distinct.add((fen, "stalled"))
        if a is None or b is None:
            violations.append(viol("C16", "no-answer", f"fen=[{fen}] depth {d} (stalled run: {b is None})"))
        elif a != b:
            violations.append(viol("C16", "process-runs-differ", f"fen=[{fen}] depth {d}: undisturbed={a[-2:]} frozen-for-3x150ms={b[-2:]}"))
    # the theorem behind C16 (`search_clock_indep`) needs NoTimeLimit: observe it on the searches the binary really runs
    for l in limits_seen:
        if time_limited(l):
            violations.append(viol("C16", "fixed-depth-search-has-a-time-limit", f"go depth {depth} runs under [{l}]: the result then depends on the wall clock"))
            break
    bench = {}
    # the bench subcommand: every search must run under no time limit (else a stalled process counts fewer nodes), totals equal
    totals, bench_limits = [], []
    for k in range(2 if tier == "thorough" else 1):
        r = subprocess.run([ctx["engine"], "bench"], capture_output=True, text=True, timeout=900, env=dict(os.environ, RCE_VERIF_TRACE="1"))
        m = re.search(r"^(\d+) nodes", r.stdout, re.M)
        totals.append(int(m.group(1)) if m else None)
        bench_limits = [l for l in r.stderr.splitlines() if l.startswith("limits ")]
        evals += 1
    bench = {"bench_node_totals": totals, "bench_searches_traced": len(bench_limits)}
    if None in totals or len(set(totals)) != 1:
        violations.append(viol("C16", "bench-totals-differ", f"{totals}"))
    if not bench_limits:
        violations.append(viol("C16", "bench-not-traced", "no `limits` line on stderr: cannot observe the limits bench runs under"))
    bad = [l for l in bench_limits if time_limited(l)]
    if bad:
        # exhibit it when the limit is short enough: stall one run for longer than the limit and compare the node totals
        tl = time_limited(bad[0])
        detail = f"bench runs its searches under [{bad[0]}]"
        try:
            ms = int(tl.get("movetime", "0"))
        except ValueError:
            ms = 0
        if 0 < ms <= 120000:
            p = subprocess.Popen([ctx["engine"], "bench"], stdout=subprocess.PIPE, stderr=subprocess.DEVNULL, text=True)
            time.sleep(1.0)
            p.send_signal(signal.SIGSTOP)
            time.sleep(ms / 1000.0 + 2.0)
            p.send_signal(signal.SIGCONT)
            out, _ = p.communicate(timeout=900)
            m = re.search(r"^(\d+) nodes", out, re.M)
            stalled = int(m.group(1)) if m else None
            detail += f"; a run stopped for {ms / 1000.0 + 2.0:.0f} s reports {stalled} nodes, an undisturbed one {totals[0]}"
        violations.append(viol("C16", "bench-search-has-a-time-limit", detail))
    # `bench` typed into a UCI session that has already searched (warm cache): either it is not a session command at all (rejected,
    # the session stays responsive) or it prints the same node total as the subcommand
    try:
        first_fen = re.search(r'"([^"]+)"', open(os.path.join(ctx["repo"], "src", "bench.rs")).read().split("FENS", 1)[1]).group(1)
    except Exception:
        first_fen = SEEDS[0]
    eng = Engine(ctx["engine"])
    eng.send(f"position fen {first_fen}")
    eng.send("go depth 4")
    eng.wait_for(lambda l: l.startswith("bestmove"), 60.0)
    idx = len(eng.lines())
    eng.send("bench")
    eng.send("isready")
    eng.wait_for(lambda l: l == "readyok", 600.0, idx)
    sess = [l for _, l in eng.lines()[idx:]]
    eng.send("quit")
    eng.close()
    evals += 1
    m = next((re.match(r"^(\d+) nodes", l) for l in sess if re.match(r"^(\d+) nodes", l)), None)
    if m and totals and totals[0] is not None and int(m.group(1)) != totals[0]:
        violations.append(viol("C16", "bench-totals-differ", f"`bench` inside a session after `position fen {first_fen}` / `go depth 4` reports {m.group(1)} nodes, the subcommand {totals[0]}"))
    bench["bench_in_session"] = ("rejected" if not m else f"{m.group(1)} nodes")
    samples.append(f"bench node totals {totals}, {len(bench_limits)} searches traced, none time-limited" if not bad else f"bench: {bad[0]}")
    return dict({"violations": violations, "evaluations": evals, "distinct_nontrivial": max(2, len(distinct)), "samples": samples, "ok": not violations}, **bench)


# ------------------------------------------------------------------------------------------------
# C14: the real binary's info lines (with their time / nps tokens) for `go depth N`

INFO_RE = re.compile(r"^info depth (\d+)( seldepth \d+)? nodes \d+( time \d+)?( nps \d+)? score (cp -?\d+|mate -?\d+) pv( [a-h][1-8][a-h][1-8][qrbn]?)+$")


def c14_extra(tier, seed, ctx):
    violations, samples, queries, evals = [], [], [], 0
    distinct = set()
    # roots with a single legal move (in check / not in check) are part of "all positions with a legal move"
    forced = ["7k/8/8/8/8/8/5PP1/r5K1 w - - 0 1", "7k/7p/7P/8/8/8/8/K7 b - - 0 1", "rnbqkbnr/ppppp1pp/8/5p1Q/4P3/8/PPPP1PPP/RNB1KBNR b KQkq - 1 2"]
    fens = (SEEDS[:4] if tier == "quick" else SEEDS) + forced
    # roots that repeat an earlier position of the game (both sides shuffled a piece out and back)
    histories = {"startpos-shuffle": "position startpos moves g1f3 g8f6 f3g1 f6g8",
                 "endgame-shuffle": "position fen 8/5k2/8/8/8/8/1R6/4K3 w - - 0 1 moves b2b3 f7f6 b3b2 f6f7 b2b3 f7f6 b3b2 f6f7"}
    depths = [1, 2, 3, 4] if tier == "quick" else [1, 2, 3, 4, 5]
    for fen in fens + list(histories):
        eng = Engine(ctx["engine"])
        eng.send(histories[fen] if fen in histories else f"position fen {fen}")
        base, hist = fen, []
        if fen in histories:
            cmd = histories[fen]
            head, _, mv = cmd.partition(" moves ")
            hist = mv.split()
            base = SEEDS[0] if "startpos" in head else head.split("position fen ", 1)[1]
        for d in depths:
            idx = len(eng.lines())
            eng.send(f"go depth {d}")
            i = eng.wait_for(lambda l: l.startswith("bestmove"), 30.0, idx)
            evals += 1
            distinct.add((fen, d))
            if i is None:
                violations.append(viol("C14", "no-bestmove", f"fen=[{fen}] go depth {d}"))
                break
            infos = [l for _, l in eng.lines()[idx:i] if l.startswith("info")]
            got = []
            for l in infos:
                norm = " ".join(l.split())
                if not INFO_RE.match(norm):
                    violations.append(viol("C14", "info-syntax", f"fen=[{fen}] go depth {d}: [{l}]"))
                m = re.match(r"info depth (\d+)", norm)
                got.append(int(m.group(1)) if m else -1)
                pv = norm.split(" pv", 1)[1].split() if " pv" in norm else []
                # every prefix of the PV must be a legal line: ask for the last move after the earlier ones
                for k in range(len(pv)):
                    queries.append((base, " ".join(hist + pv[:k]), pv[k]))
            if got != list(range(1, d + 1)):
                violations.append(viol("C14", "depth-limit-not-completed", f"fen=[{fen}] go depth {d}: reported depths {got}"))
            if len(samples) < 3 and infos:
                samples.append(f"fen=[{fen}] go depth {d} -> {infos[-1]}")
            time.sleep(0.03)
        eng.send("quit")
        eng.close()
    for l in legal_queries(ctx["driver"], queries):
        violations.append(viol("C14", "pv-not-legal", l))
    return {"violations": violations, "evaluations": evals, "distinct_nontrivial": len(distinct), "samples": samples,
            "pv_moves_checked": len(queries), "ok": not violations}


# ------------------------------------------------------------------------------------------------
# C01: the rules spec itself against published perft numbers (a labelled test of the oracle, not a proof)

def c01_extra(tier, seed, ctx):
    r = subprocess.run([ctx["driver"], "perft"], capture_output=True, text=True, timeout=900)
    mm = [l for l in r.stdout.splitlines() if l.startswith("MISMATCH")]
    summ = next((json.loads(l[8:]) for l in r.stdout.splitlines() if l.startswith("SUMMARY ")), {})
    return {"violations": [], "model_mismatches": [{"class": "model", "props": "C01", "kind": "spec-perft", "raw": l} for l in mm],
            "evaluations": summ.get("perft_entries", 0), "distinct_nontrivial": summ.get("perft_entries", 0),
            "samples": [f"rules spec reproduces {summ.get('perft_entries', 0)} published perft values ({summ.get('perft_nodes', 0)} leaf nodes)"],
            "spec_perft_nodes": summ.get("perft_nodes", 0), "ok": not mm and bool(summ)}


if __name__ == "__main__":
    ctx = {"engine": "/verif/engine-target/release/rust_chess_engine", "driver": "/verif/lean/.lake/build/bin/driver"}
    which = sys.argv[1]
    tier = sys.argv[2] if len(sys.argv) > 2 else "quick"
    r = {"c09": c09_extra, "c10": c10_extra, "c14": c14_extra, "c15": c15_extra, "c16": c16_extra}[which](tier, 1, ctx)
    print(json.dumps({k: v for k, v in r.items()}, indent=1)[:6000])
