import procdrive
"""Registry: per property, the theorem module + theorems that form the proof gate, and the
correspondence streams of each tier.  Extended as theorems land."""

WALK_Q = {"name": "walk", "stream": "walk", "driver": "walk", "shards": 16,
          "args": ["--games", 160, "--plies", 100, "--dfs", 2, "--corpus", "corpus/walk.txt"]}
WALK_T = {"name": "walk", "stream": "walk", "driver": "walk", "shards": 16,
          "args": ["--games", 3000, "--plies", 160, "--dfs", 3, "--corpus", "corpus/walk.txt"]}
FEN_Q = {"name": "fen", "stream": "fen", "driver": "walk", "shards": 8, "args": ["--count", 4000]}
FEN_T = {"name": "fen", "stream": "fen", "driver": "walk", "shards": 16, "args": ["--count", 100000]}

PROPS = {}

PROPS["C06"] = {
    "module": "RCE.Props.C06src",
    "theorems": [
        "RCE.Props.C06.knight_source_exact",
        "RCE.Props.C06.king_source_exact",
        "RCE.Props.C06.pawn_source_exact",
        "RCE.Props.C06.ray_source_eq",
        "RCE.Props.C06.rook_mask_source_eq",
        "RCE.Props.C06.bishop_mask_source_eq",
        "RCE.Props.C06.rook_slow_source_eq",
        "RCE.Props.C06.bishop_slow_source_eq",
        "RCE.Props.C06.shift_east_source_eq",
        "RCE.Props.C06.shift_west_source_eq",
        "RCE.Props.C06.trim_edges_source_eq",
        "RCE.Props.C06.rook_fill_source_eq",
        "RCE.Props.C06.bishop_fill_source_eq",
        "RCE.Props.C06.rook_attacks_exact",
        "RCE.Props.C06.bishop_attacks_exact",
        "RCE.Props.C06.queen_attacks_exact",
        "RCE.Props.C06.knight_attacks_exact",
        "RCE.Props.C06.king_attacks_exact",
        "RCE.Props.C06.pawn_attacks_exact",
    ],
    "streams": {
        "quick": [{"name": "tables-relevant", "stream": "tables", "driver": "tables", "args": ["--mode", "relevant", "--count", 20000]}, WALK_Q],
        "thorough": [{"name": "tables-lines", "stream": "tables", "driver": "tables", "args": ["--mode", "lines", "--count", 400000]},
                     {"name": "tables-relevant", "stream": "tables", "driver": "tables", "args": ["--mode", "relevant", "--count", 1000]}],
    },
    "eval_key": "slider_lookups",
    "distinct_key": "slider_lookups",
    "exhaustive": {"quick": True, "thorough": True},
    "rule": "every ray (512), every leaper entry (knight, king, pawn x2 colours, 64 squares), every (square, subset of the relevant-occupancy mask) "
            "slider lookup (107,648; thorough: every subset of the full lines, ~1.1M) through Kind::get_attacks, plus random full-board occupancies through "
            "Rook/Bishop::get_attacks_wrapper and Queen::get_attacks; each is compared with the Lean model (tables recomputed from the regenerated constants) and "
            "with the coordinate-stepping spec; every enumerated case is distinct by construction",
    "assumptions": ["popcnt/tzcnt/lzcnt intrinsics behave as their mathematical definitions (modelled, compared on every lookup)"],
}

WALK_RULE = ("positions visited by (a) exhaustive descents to a fixed depth from 40 seed FENs (perft suite, en-passant pins, castling through attack, "
             "promotions, double checks, locked positions), (a') two structured families in both colours: the castling set-up with one extra enemy piece of every kind on every free square "
             "(castling out of / through / into every kind of attack) and an en-passant capture on every file with one or two capturers, the king safe, on the capture rank facing a rook or queen, "
             "behind a bishop-pinned victim, or with the capturer pinned on its file, (b) random games with move-kind bias (castling / en passant / promotion / capture), nested take-backs, "
             "deliberate shuffles that repeat positions, and continuation from a FEN reload, one game of 4,300 reversible moves through distinct positions followed by an irreversible move and take-backs (light move lines, state dumps now and then), (c) the minimised corpus; one observation block per position "
             "(full state dump, pseudo-legal list in generation order, legal list, check flags, attacked-square sets, from-scratch / reload keys, evaluation and its mirror / "
             "swapped twins, periodic single-component perturbations). distinct_nontrivial = number of distinct positions by (placement, side, rights, ep file), counted by the driver")

PROPS["C05"] = {
    "module": "RCE.Props.C05",
    "theorems": ["RCE.Props.C05.scratchKey_is_keyOfParts", "RCE.Props.C05.single_square", "RCE.Props.C05.single_turn",
                 "RCE.Props.C05.single_ep", "RCE.Props.C05.single_right"],
    "streams": {"quick": [dict(WALK_Q, args=WALK_Q["args"] + ["--perturb-every", 8]), FEN_Q],
                "thorough": [dict(WALK_T, args=WALK_T["args"] + ["--perturb-every", 97]), FEN_T]},
    "rule": WALK_RULE + "; for C05 every explored key is bucketed by position identity (no two identities may share a key) and every perturbed from-scratch key must differ",
    "assumptions": ["the full statement (all pairs of distinct positions) is false for any 64-bit key by counting and is not claimed; "
                    "proved: every single-component difference changes the key, over the regenerated table"],
}

PROPS["C17"] = {
    "module": "RCE.Props.C17src",
    "theorems": ["RCE.Props.C17.eval_source_eq", "RCE.Props.C17.eval_source_mirror", "RCE.Props.C17.eval_source_swap", "RCE.Props.C17.eval_mirror", "RCE.Props.C17.eval_swap", "RCE.Props.C17.eval_range",
                 "RCE.Props.C17.saturation_breaks_antisymmetry", "RCE.Props.C17.reachable_material_bounded", "RCE.Props.C17.eval_swap_reachable", "RCE.Props.C17.eval_swap_in_every_game"],
    "streams": {"quick": [WALK_Q, FEN_Q], "thorough": [WALK_T, FEN_T]},
    "rule": WALK_RULE,
    "assumptions": ["eval_swap needs per-side material <= 32767 cp (true of every reachable position; counter-example without it is a theorem)"],
}

PROPS["C02"] = {
    "module": "RCE.Props.C02",
    "theorems": ["RCE.Props.C02.unmake_make", "RCE.Props.C02.isLegalMove_pure", "RCE.Props.C02.legalMoves_pure",
                 "RCE.Props.C02.nested_make_unmake"],
    "streams": {"quick": [WALK_Q, FEN_Q], "thorough": [WALK_T, FEN_T]},
    "tier_b_kinds": [],
    "rule": WALK_RULE + "; for C02 the full state dump (15 bitboards, turn, counters, ep, key, every undo record, repetition record) is compared "
            "before/after every make-unmake pair (exhaustive descents, random nested take-backs, complete unwinding of every game) and every legal-move query",
    "assumptions": ["WF (representation invariant) holds of the start position and is preserved by every generated move (both proved)"],
}

PROPS["C04"] = {
    "module": "RCE.Props.C04",
    "theorems": ["RCE.Props.C04.key_incremental", "RCE.Props.C04.scratchKey_position_only", "RCE.Props.C04.transposition_same_key",
                 "RCE.Props.C04.fromFen_key", "RCE.Props.C04.start_ok", "RCE.Props.C04.key_ok_run"],
    "streams": {"quick": [WALK_Q, FEN_Q], "thorough": [WALK_T, FEN_T]},
    "rule": WALK_RULE + "; plus the generated FEN family (counters varied independently of the position, moves played from every loaded position); for C04 the incremental key, the from-scratch key and the key of the FEN reload of the same position are compared after every make and "
            "every unmake, and all explored keys are grouped by position identity (same identity must give the same key, across games and transpositions)",
    "assumptions": [],
}

def S(name, mode, count, maxdepth, shards=16, extra=None):
    return {"name": name, "stream": "search", "driver": "search", "shards": shards,
            "args": ["--mode", mode, "--count", count, "--maxdepth", maxdepth] + (extra or [])}

SEARCH_RULE = ("search cases = (position with its game history: the 50 seed FENs interleaved with positions reached by random play incl. deliberate repetitions — a third of the histories end with both sides "
               "shuffling a piece out and back so that the ROOT repeats an earlier position, a third with half of such a shuffle — plus roots with a single legal move and roots without moves) x depth x "
               "(node budget | stop-at-poll k | none) x cache mode (fresh | kept from earlier searches | neutralised); each case runs the real Search::search "
               "in-process and is compared line by line with the executable Lean search model (info lines, bestmove, every cache insert with node counter / flag / ply, "
               "node count, seldepth, poll count, cache size and checksum) and with the property's own oracle; further modes by property: one-sided and asymmetric game clocks on a virtual clock (C09/C13), the fifty-move horizon with castling / captures / promotions at hand and mate-rich mined positions with the cache neutralised (C11), mined mates in one / two / avoidable threats after earlier searches of the position and of its parent (C12), sparse level endgames to depth 8 with the property-level checks only (C14), chains of different searches on one thread and fresh searches before and after a 4.5-million-entry cache (C16); distinct_nontrivial = distinct case descriptors, counted by the driver")

SP_Q = S("search-plain", "plain", 100, 3, extra=["--repeat", 2])
# deep searches judged on the engine's own output only (no model run): the position key must be restored, PVs legal, one bestmove
SD_Q = dict(S("search-deepseed", "deepseed", 120, 5), driver="search:0")
SD_T = dict(S("search-deepseed", "deepseed", 400, 6), driver="search:0")
SE_Q = dict(S("search-deepend", "deepend", 320, 8), driver="search:0")
SO_Q = dict(S("search-off", "off", 100, 3), driver="search:6")
SB_Q = S("search-budget", "budget", 32, 2, extra=["--step", 1, "--maxcases", 120])
SS_Q = S("search-stop", "stop", 32, 2, extra=["--step", 3, "--maxcases", 120])
SK_Q = S("search-keep", "keep", 64, 3)
SR_Q = S("search-retro", "retro", 320, 3)    # backward analysis: the forced move into a mate-in-one searched first, then its predecessor with the cache kept
SR_T = S("search-retro", "retro", 4000, 3)
SB3_Q = S("search-budget3", "budget", 48, 3, extra=["--step", 1, "--maxcases", 60])   # interruptions inside iteration 3: a partial iteration that already improved on iteration 2
SC_Q = S("search-clock", "clock", 32, 2, extra=["--maxcases", 100])
SC_T = S("search-clock", "clock", 160, 3, extra=["--maxcases", 1200])
SP_T = S("search-plain", "plain", 400, 4, extra=["--repeat", 2])
SO_T = dict(S("search-off", "off", 480, 4), driver="search:12")
SB_T = S("search-budget", "budget", 160, 3, extra=["--step", 1, "--maxcases", 1500])
SS_T = S("search-stop", "stop", 160, 3, extra=["--step", 1, "--maxcases", 1500])
SK_T = S("search-keep", "keep", 400, 4)

PROPS["C14"] = {
    "module": "RCE.Props.C14chess",
    "theorems": ["RCE.Props.C14.info_depths", "RCE.Props.C14.depth_limit_complete", "RCE.Props.C14.pv_legal", "RCE.Props.C14.pv_nonempty", "RCE.Props.C14.info_score_present", "RCE.Props.C14.chess_pv_legal_by_the_rules", "RCE.Props.C14.chess_pv_nonempty"],
    "streams": {"quick": [SP_Q, S("search-budget", "budget", 16, 2, extra=["--step", 7, "--maxcases", 40]), S("search-game", "game", 48, 4, extra=["--plies", 8]), SR_Q, dict(S("search-deepend", "deepend", 320, 8), driver="search:0"), dict(S("search-fifty", "fifty", 64, 3), driver="search:0")],
                "thorough": [SP_T, dict(S("search-deepend", "deepend", 3200, 8), driver="search:0"), S("search-budget", "budget", 64, 3, extra=["--step", 11, "--maxcases", 300]), SK_T, S("search-game", "game", 400, 5, extra=["--plies", 12]), SR_T,
                             {"name": "search-benchkeep", "stream": "search", "driver": "search:0", "args": ["--mode", "file", "--cases", "work/bench_keep_cases.txt"]}]},
    "eval_key": "cases", "distinct_key": "distinct_cases",
    "rule": SEARCH_RULE + "; for C14: every info line is checked against the UCI token grammar, depths must be 1,2,3,... in order, every PV is replayed move by move "
            "on the rules spec and must have at least one move, and an unlimited depth-N search must report all N depths (also at roots with a single legal move and at roots that repeat an earlier position of the game)",
    "assumptions": ["pv_legal assumes KeyMoves (positions with equal 64-bit keys generate the same moves) and that the initial cache holds generated moves",
                    "time / nps tokens are clock dependent: checked for syntax on the real binary's output, not modelled"],
}

PROPS["C13"] = {
    "module": "RCE.Props.C13",
    "theorems": ["RCE.Props.C13.writes_only_complete", "RCE.Props.C13.no_nodes_after_abort", "RCE.Props.C13.abortCheck_interrupts"],
    "streams": {"quick": [SB_Q, SS_Q, SC_Q, SB3_Q], "thorough": [SB_T, SS_T, SC_T, SK_T]},
    "eval_key": "cases", "distinct_key": "distinct_cases",
    "exhaustive": {"quick": False, "thorough": False},
    "rule": SEARCH_RULE + "; for C13: for each position the full search is sized first, then re-run under EVERY node budget 1..N+1 (or every k-th when N exceeds the case cap) and with a stop "
            "landing at every k-th poll of the running flag; the observer hook reports each cache insert with (nodes, budget, running flag): an insert with the flag cleared or nodes >= budget "
            "is a violation; the insert sequence must equal the model's",
    "assumptions": ["the clock is monotone (Instant); the ply cap of 255 is not an interruption"],
}

PROPS["C11"] = {
    "module": "RCE.Props.C11chess",
    "theorems": ["RCE.Props.C11.ab_eq_negamax", "RCE.Props.C11.ref_root_value_eq", "RCE.Props.C11.ref_root_move_value_eq",
                 "RCE.Props.C11.chess_ab_eq_negamax", "RCE.Props.C11.chess_ab_eq_negamax_in_every_game"],
    "streams": {"quick": [SO_Q, dict(S("search-fifty", "fifty", 64, 3), driver="search:0"), dict(S("search-mateoff", "mateoff", 160, 4), driver="search:0"), dict(S("search-promo", "promo", 1000, 3), driver="search:0"), WALK_Q],
                "thorough": [SO_T, dict(S("search-fifty", "fifty", 64, 4), driver="search:0"), dict(S("search-mateoff", "mateoff", 1600, 4), driver="search:0"), dict(S("search-promo", "promo", 6000, 3), driver="search:0"), WALK_T]},
    "eval_key": "cases", "distinct_key": "distinct_cases",
    "rule": SEARCH_RULE + "; for C11: cache neutralised by the hook, no limits; the root score read from info.best_score and the value of the chosen move are compared with a reference "
            "minimax (textbook fail-soft alpha-beta, no ordering heuristics beyond a static capture sort, no cache, no null windows) over the model's game, and for small depths with the "
            "same reference over the independent rules spec (own evaluation, own repetition record); extra position families: mate-rich mined positions, and promotion-rich unbalanced positions "
            "(far-advanced pawns next to capturable pieces: capture-promotions inside quiescence); the walk stream compares the move orderer's output with the model's on every explored position "
            "(cache move and killers picked from the list; every generated move must be handed out exactly once — crowded positions with up to 219 moves included)",
    "assumptions": ["EvalBoundedFrom: evaluations in the tree are within +-32511 (true for any position with realistic material)"],
}

PROPS["C16"] = {
    "module": "RCE.Props.C16bench",
    "theorems": ["RCE.Props.C16.search_clock_indep", "RCE.Props.C16.bench_total_clock_indep", "RCE.Props.C16.bench_result_clock_indep"],
    "streams": {"quick": [S("search-plain", "plain", 64, 3, extra=["--repeat", 3]), S("search-deep", "deep", 2, 7, shards=2),
                          dict(S("search-xcheck", "xcheck", 2400, 4, extra=["--repeat", 2]), driver="search:0"),
                          dict(S("search-chain", "chain", 64, 3), driver="search:0"),
                          {"name": "search-huge", "stream": "search", "driver": "search:0", "args": ["--mode", "huge"]}],
                "thorough": [S("search-plain", "plain", 400, 4, extra=["--repeat", 3]), dict(S("search-chain", "chain", 800, 3), driver="search:0"), S("search-deep", "deep", 4, 7, shards=4, extra=["--repeat", 3]),
                             dict(S("search-xcheck", "xcheck", 40000, 5, extra=["--repeat", 2]), driver="search:0"),
                             {"name": "search-bench", "stream": "search", "driver": "search:0", "shards": 16, "args": ["--mode", "file", "--cases", "work/bench_cases.txt"]},
                             {"name": "search-benchkeep", "stream": "search", "driver": "search:0", "args": ["--mode", "file", "--cases", "work/bench_keep_cases.txt"]},
                             {"name": "search-huge", "stream": "search", "driver": "search:0", "args": ["--mode", "huge"]}]},
    "eval_key": "cases", "distinct_key": "distinct_cases",
    "rule": SEARCH_RULE + "; the same small fresh searches before and after the cache has held 4.5 million entries (keys of positions from random games, inserted directly) and was cleared (search-huge); thorough: the 62 bench positions to bench::MAXDEPTH in-process, node counts and every cache write equal to the model's (the bench node total is their sum); for C16: every case is run three times in one process from a fresh cache and all outputs (info lines, bestmove, every cache insert, counters, cache checksum) "
            "must be identical to each other and to the model's single prediction; 2400 (thorough 40000) random open positions with several queens (checks answered by checks, extensions far beyond the nominal depth) are each searched twice in a row in one thread and compared with themselves; chains (stream_totals.chain_pairs): for a position A searched to depth d, every position B of A's tree at plies d-1 and d (all for d <= 2, a sample of 1200 for d = 3) is searched on the same thread right after A with the cache cleared in between, and must give the (best move, score, nodes) it gives when searched after itself; the process-level part runs the real binary in separate processes, under 16-way CPU load, and the bench subcommand twice",
    "assumptions": [],
}

PROPS["C09"] = {
    "module": "RCE.Props.C09",
    "theorems": ["RCE.Props.C09.one_legal_bestmove", "RCE.Props.C09.ply_restored", "RCE.Props.C09.chess_bestmove_legal_by_the_rules",
                 "RCE.Props.C09.chess_eval_bounded", "RCE.Props.C09.chess_go_answers_a_legal_move",
                 "RCE.Props.C09.allowance_within_own_clock", "RCE.Props.C09.clock_expiry_noticed"],
    "streams": {"quick": [SP_Q, SB_Q, SS_Q, SC_Q, SB3_Q, S("search-kb", "kb", 96, 3), SR_Q], "thorough": [SP_T, SB_T, SS_T, SC_T, S("search-kb", "kb", 800, 4), SR_T]},
    "eval_key": "cases", "distinct_key": "distinct_cases",
    "rule": SEARCH_RULE + "; for C09: exactly one bestmove line per search, the move must be legal in the rules spec's position, no panic of the search, under every node budget and stop point "
            "(incl. budgets 1 and 2 where the first iteration is interrupted and the fallback move is used); the process-level part drives the real binary with limit mixes "
            "(depth, nodes, movetime 0/1/50, wtime/btime/winc/binc incl. 0, and mixes where only the mover's OWN clock is short while the opponent's clock and increment are large) and consecutive go commands, "
            "for both colours to move, and checks count, legality and latency of bestmove (time budget = movetime, and for clock limits the mover's own time + increment, + 0.6 s) and readyok afterwards; "
            "in-process clock cases run on a virtual clock (equal clocks, asymmetric clocks / increments, movetime) and the allowance the engine gives itself must not exceed the mover's own clock + increment; "
            "roots with a single legal move and roots without moves are among the cases; kb mode: a full search, then — cache kept — positions two plies further on (replies that give check preferred) "
            "searched with node budgets 1..8 or a stop at the first poll: whatever the cache holds about them, the answer must be legal",
    "assumptions": ["wall-clock latency is measured on the real binary only (PARTIAL for the timing clause: the model cannot exhibit how long a node takes)"],
}

PROPS["C07"] = {
    "module": "RCE.Props.C07played",
    "theorems": ["RCE.Props.C07.fen_roundtrip", "RCE.Props.C07.fen_roundtrip4", "RCE.Props.C07.fromFen_wf", "RCE.Props.C07.start_fen",
                 "RCE.Props.C07.fromFen_legal", "RCE.Props.C07.fromFen_legal_moves_exact",
                 "RCE.Props.C07.loaded_equals_played", "RCE.Props.C07.same_now_same_behaviour", "RCE.Props.C07.reload_after_game", "RCE.Props.C07.reload_then_play"],
    "streams": {"quick": [FEN_Q, WALK_Q], "thorough": [FEN_T, WALK_T]},
    "rule": "generated FEN family: positions met on random walks from 40 seeds rendered with every castling-letter order, half-move clocks 0..150, move numbers 1..6000, "
            "4-field and 6-field forms, extra blanks; each string is loaded by Board::from_fen and the full state (and the legal moves, keys, evaluation of the loaded position and of a few "
            "moves played from it) is compared with the Lean reader model and with the independent spec parse; the walk stream additionally continues games from FEN reloads. " + WALK_RULE,
    "assumptions": ["invalid FEN is outside the property (the reader panics on it)"],
}

PROPS["C01"] = {
    "module": "RCE.Props.C01perft",
    "theorems": ["RCE.Props.C01.attacked_exact", "RCE.Props.C01.inCheck_exact", "RCE.Props.C01.pseudo_exact",
                 "RCE.Props.C01.legal_exact", "RCE.Props.C01.mate_stalemate_exact", "RCE.Props.C01.make_keeps",
                 "RCE.Props.C01.perft_exact", "RCE.Props.C01.perft_start"],
    # the FEN family too: positions SET UP from text (as a GUI does) must offer the rules' moves just like positions reached by play
    "streams": {"quick": [WALK_Q, FEN_Q], "thorough": [WALK_T, FEN_T]},
    "tier_b_kinds": ["pseudo-legal-order", "legal-list"],
    "rule": WALK_RULE + "; for C01 the sorted legal-move set (from/to/promotion) and both in-check answers and both attacked-square sets of every explored position are compared with the rules spec "
            "(Tier A) and the generation-order lists with the model (Tier B)",
    "assumptions": [],
}

PROPS["C03"] = {
    "module": "RCE.Props.C03u16",
    "theorems": ["RCE.Props.C03.counters_fit_u16", "RCE.Props.C03.counters_fit_u16_from_start", "RCE.Props.C03.make_refines", "RCE.Props.C03.make_legal", "RCE.Props.C03.game_refines",
                 "RCE.Props.C03.repetition_record", "RCE.Props.C03.start_legal",
                 "RCE.Props.C03.rights_never_regained", "RCE.Props.C03.ep_iff_double_push", "RCE.Props.C03.ep_only_after_double_push"],
    "streams": {"quick": [WALK_Q, FEN_Q], "thorough": [WALK_T, FEN_T]},
    "rule": WALK_RULE + "; plus the generated FEN family (half-move clocks up to 650, move numbers up to 6000) with a few moves played from every loaded position; for C03 after every move of every game the implementation's placement (x64), side to move, four rights, en-passant file, half-move clock, full-move number "
            "are compared with the rules state machine, its FEN with the spec's rendering, and its repetition record with the multiset of keys of the earlier positions on the path",
    "assumptions": ["the two counters are Nat in the model and u16 in the engine; counters_fit_u16 proves that no u16 addition can wrap within 65,535 - (counter at the start) plies, beyond that is outside the claim"],
}

UCI_Q = {"name": "uci", "stream": "uci", "driver": "uci", "shards": 16, "args": ["--sessions", 1600]}
UCI_T = {"name": "uci", "stream": "uci", "driver": "uci", "shards": 16, "args": ["--sessions", 40000]}
UCI_RULE = ("generated UCI sessions: position commands carrying legal games (random play from 40 seeds, biased to castling / en passant / promotion) and every kind of single-move corruption "
            "(illegal move, wrong / missing / upper-case promotion suffix, the same move strings re-sent in another legal order, castling written as king-takes-rook, truncated string, a move of the other side, 'moves' keyword forgotten), "
            "ucinewgame / isready / setoption variants, junk lines built from the UCI vocabulary with arguments dropped, duplicated, reordered or replaced by junk numbers (negative, > u8, > u64, > u128, "
            "non-numeric, non-ASCII), tab-separated tokens, lines after quit; each line goes through the real parser (verdict compared with the model) and each session through the real uci_loop "
            "(session position after every executed command compared with the model and with the rules spec's reading of the position command); distinct_nontrivial = distinct input lines")

PROPS["C08"] = {
    "module": "RCE.Props.C08",
    "theorems": ["RCE.Props.C08.position_atomic", "RCE.Props.C08.position_fresh", "RCE.Props.C08.findMove_sound",
                 "RCE.Props.C08.findMove_complete", "RCE.Props.C08.playMoves_spec", "RCE.Props.C08.legal_move_unique"],
    "streams": {"quick": [UCI_Q], "thorough": [UCI_T]},
    "eval_key": "input_lines", "distinct_key": "distinct_lines",
    "rule": UCI_RULE,
    "assumptions": ["FEN arguments are valid 6-field FENs", "a 4-field FEN followed by 'moves' is sliced wrongly by parse_position and is outside the property's 'fen F' form (recorded quirk)"],
}

PROPS["C15"] = {
    "module": "RCE.Props.C15",
    "theorems": ["RCE.Props.C15.parse_total", "RCE.Props.C15.loop_total", "RCE.Props.C15.isready_answered", "RCE.Props.C15.quit_exits"],
    "streams": {"quick": [UCI_Q], "thorough": [UCI_T]},
    "eval_key": "input_lines", "distinct_key": "distinct_lines",
    "rule": UCI_RULE + "; for C15 additionally the real binary is fed junk sessions, end-of-input at every point and quit, and must answer isready, exit with status 0 promptly and print no panic",
    "assumptions": ["FEN arguments are valid FEN (Board::from_fen panics otherwise: outside the property)", "setoption name/value are lower-cased with to_lowercase(): modelled for ASCII only"],
}

PROPS["C10"] = {
    "module": "RCE.Props.C10",
    "theorems": ["RCE.Props.C10.stop_never_lost", "RCE.Props.C10.stop_answers_in_three_steps", "RCE.Props.C10.go_never_dropped",
                 "RCE.Props.C10.blocked_go_is_accepted", "RCE.Props.C10.one_bestmove_per_go", "RCE.Props.C10.old_stop_lost", "RCE.Props.C10.old_go_dropped"],
    "streams": {"quick": [], "thorough": []},
    "extra": procdrive.c10_extra,
    "need_engine": True,
    "rule": "16 scripts (+ 2 on a position whose FIRST iteration takes minutes: a stop must still be answered at once) over {go finite/infinite, stop, position, isready, go} x forced orderings of the labelled schedule points (search entry, first iteration done, before flag clear, "
            "before/after bestmove, search exit, after spawn, command done) obtained by env-configured delays on the real binary (cfg rce_verif), on 2 (quick) / 6 (thorough) positions, repeated; "
            "observed: number of bestmoves, explicit refusals, time from stop to bestmove, readyok afterwards, legality of the moves; the realised order of the labelled points is read back from "
            "stderr and replayed on the Lean protocol model, whose bestmove / refusal counts must agree; distinct = (position, schedule) pairs",
    "assumptions": ["OS fairness (each thread is eventually scheduled) is a hypothesis of the progress statements", "Relaxed atomics on one location modelled as one sequentially consistent cell",
                    "wall-clock 'promptly' is measured with an allowance of 0.5 s + the injected delays (PARTIAL for the timing clause)"],
}
PROPS["C09"]["extra"] = procdrive.c09_extra
PROPS["C09"]["need_engine"] = True
PROPS["C15"]["extra"] = procdrive.c15_extra
PROPS["C15"]["need_engine"] = True
PROPS["C16"]["extra"] = procdrive.c16_extra
PROPS["C16"]["need_engine"] = True

PROPS["C12"] = {
    "module": "RCE.Props.C12chess2",
    "theorems": ["RCE.Props.C12.tt_mate_sound_partial", "RCE.Props.C12.mate_score_sound_partial", "RCE.Props.C12.statements_refuted",
                 "RCE.Props.C12.mate_in_one_played", "RCE.Props.C12.mate_in_one_answered", "RCE.Props.C12.mateOneInv_empty",
                 "RCE.Props.C12.chess_orderScoresOK", "RCE.Props.C12.mate_in_one_nonvacuous",
                 "RCE.Props.C12.avoidable_mate_avoided_partial", "RCE.Props.C12.avoidable_mate_avoided_again", "RCE.Props.C12.avoidable_mate_statement_refuted",
                 "RCE.Props.C12.mate_in_two_kept_partial", "RCE.Props.C12.mate_in_two_kept_four", "RCE.Props.C12.mate_in_two_statement_refuted",
                 "RCE.Props.C12.chess_mates_iff", "RCE.Props.C12.chess_mate_in_one_by_the_rules",
                 "RCE.Props.C12.chess_avoidable_mate_by_the_rules", "RCE.Props.C12.chess_mate_in_two_forced_by_the_rules", "RCE.Props.C12.chess_lost_iff"],
    "streams": {"quick": [S("search-mate", "mate", 160, 4), S("search-matechain", "matechain", 400, 4)], "thorough": [S("search-mate", "mate", 3200, 5), S("search-matechain", "matechain", 8000, 4), SK_T]},
    "eval_key": "cases", "distinct_key": "distinct_cases",
    "rule": SEARCH_RULE + "; for C12: positions WITHOUT history and with a small half-move clock are mined by brute force (sparse random positions and random play from the seeds) so that a third has a mate in one, "
            "a third a forced mate in two, a third an avoidable mate-in-one threat; each is searched to depth 3 and 4 from an empty cache and again after earlier completed searches of the same position at the other "
            "depths 1..4 in a random order (cache kept); after every completed search of depth >= 3 the chosen move is judged by a mate solver over the rules spec (the mined witness is re-verified on the spec first): "
            "mate in one must be played, a forced mate must be kept (shortest, or any within three more moves), an avoidable mate in one must not be allowed",
    "assumptions": ["KeyMate: positions with equal 64-bit keys agree on forced mates", "first completeness clause (a mate in one is played, from the empty cache and after earlier completed searches of the same position) is a theorem under MatedKeysFresh / NoDrawAtMate / cache on, each shown necessary by a counter-example; "
                    "second and third completeness clauses are theorems only under extra key / draw hypotheses (LineKeys, NoDrawBelow3, quiet key move or 4 plies; PlyKeys, MatedKeysFresh2, NoDrawAtMate2) and are REFUTED as stated for the abstract search "
                    "(kernel-checked counter-example games; the runs need transpositions between plies 1 and 3, impossible in chess, or 1 and 5); on chess positions all clauses are decided by the oracle run over mined positions",
                    "the soundness theorems need NoMateInOne at the root and StrictScores for the initial cache: without them the statement is FALSE (kernel-checked counter-examples, see DESIGN.md D9)"],
}
PROPS["C14"]["extra"] = procdrive.c14_extra
PROPS["C14"]["need_engine"] = True
PROPS["C01"]["extra"] = procdrive.c01_extra

# the engine's own board inside the search: after every search that ran to its depth its key must be the root's and the
# from-scratch key again (make / unmake / any other move-making the search uses).  Deep searches, engine output only.
for _p in ("C02", "C04"):
    PROPS[_p]["streams"]["quick"] = PROPS[_p]["streams"]["quick"] + [SP_Q, SD_Q, SE_Q]
    PROPS[_p]["streams"]["thorough"] = PROPS[_p]["streams"]["thorough"] + [SP_T, SD_T]
    PROPS[_p]["rule"] += ("; plus search streams (plain depth <= 3 against the model; the seed positions to depth 5 and sparse endgames to depth 8 judged on the engine's own output): "
                          "after every uninterrupted search the key of the search's own board must equal the root's and the from-scratch key")

# deep searches under node budgets on roots whose first generated move is illegal (engine output only: one legal bestmove)
SDB_Q = dict(S("search-deepbudget", "deepbudget", 48, 7), driver="search:0")
SDB_T = dict(S("search-deepbudget", "deepbudget", 400, 8), driver="search:0")
for _p in ("C09", "C14"):
    PROPS[_p]["streams"]["quick"] = PROPS[_p]["streams"]["quick"] + [SDB_Q]
    PROPS[_p]["streams"]["thorough"] = PROPS[_p]["streams"]["thorough"] + [SDB_T]

# a full search, then complete shallower searches of positions two plies on, cache kept (a deeper entry for the new root may exist)
SKB4_Q = S("search-kb4", "kb", 32, 4)
PROPS["C14"]["streams"]["quick"] = PROPS["C14"]["streams"]["quick"] + [SKB4_Q]
PROPS["C14"]["streams"]["thorough"] = PROPS["C14"]["streams"]["thorough"] + [S("search-kb4", "kb", 200, 5)]
