"""Registry: per property, the theorem module + theorems that form the proof gate, and the
correspondence streams of each tier.  Extended as theorems land."""

WALK_Q = {"name": "walk", "stream": "walk", "driver": "walk", "shards": 16,
          "args": ["--games", 160, "--plies", 100, "--dfs", 2, "--corpus", "corpus/walk.txt"]}
WALK_T = {"name": "walk", "stream": "walk", "driver": "walk", "shards": 16,
          "args": ["--games", 3000, "--plies", 160, "--dfs", 3, "--corpus", "corpus/walk.txt"]}
FEN_Q = {"name": "fen", "stream": "fen", "driver": "walk", "shards": 8, "args": ["--count", 4000]}
FEN_T = {"name": "fen", "stream": "fen", "driver": "walk", "shards": 16, "args": ["--count", 100000]}

PROPS = {}

PROPS["C06"] = {
    "module": "RCE.Props.C06",
    "theorems": [
        "RCE.Props.C06.rook_attacks_exact",
        "RCE.Props.C06.bishop_attacks_exact",
        "RCE.Props.C06.queen_attacks_exact",
        "RCE.Props.C06.knight_attacks_exact",
        "RCE.Props.C06.king_attacks_exact",
        "RCE.Props.C06.pawn_attacks_exact",
    ],
    "streams": {
        "quick": [{"name": "tables-relevant", "stream": "tables", "driver": "tables", "args": ["--mode", "relevant", "--count", 20000]}],
        "thorough": [{"name": "tables-lines", "stream": "tables", "driver": "tables", "args": ["--mode", "lines", "--count", 400000]},
                     {"name": "tables-relevant", "stream": "tables", "driver": "tables", "args": ["--mode", "relevant", "--count", 1000]}],
    },
    "eval_key": "slider_lookups",
    "distinct_key": "slider_lookups",
    "exhaustive": {"quick": True, "thorough": True},
    "rule": "every ray (512), every leaper entry (knight, king, pawn x2 colours, 64 squares), every (square, subset of the relevant-occupancy mask) "
            "slider lookup (107,648; thorough: every subset of the full lines, ~1.1M) through Kind::get_attacks, plus random full-board occupancies through "
            "Rook/Bishop::get_attacks_wrapper and Queen::get_attacks; each is compared with the Lean model (tables recomputed from the regenerated constants) and "
            "with the coordinate-stepping spec; every enumerated case is distinct by construction",
    "assumptions": ["popcnt/tzcnt/lzcnt intrinsics behave as their mathematical definitions (modelled, compared on every lookup)"],
}

WALK_RULE = ("positions visited by (a) exhaustive descents to a fixed depth from 40 seed FENs (perft suite, en-passant pins, castling through attack, "
             "promotions, double checks, locked positions), (b) random games with move-kind bias (castling / en passant / promotion / capture), nested take-backs, "
             "deliberate shuffles that repeat positions, and continuation from a FEN reload, (c) the minimised corpus; one observation block per position "
             "(full state dump, pseudo-legal list in generation order, legal list, check flags, attacked-square sets, from-scratch / reload keys, evaluation and its mirror / "
             "swapped twins, periodic single-component perturbations). distinct_nontrivial = number of distinct positions by (placement, side, rights, ep file), counted by the driver")

PROPS["C05"] = {
    "module": "RCE.Props.C05",
    "theorems": ["RCE.Props.C05.scratchKey_is_keyOfParts", "RCE.Props.C05.single_square", "RCE.Props.C05.single_turn",
                 "RCE.Props.C05.single_ep", "RCE.Props.C05.single_right"],
    "streams": {"quick": [dict(WALK_Q, args=WALK_Q["args"] + ["--perturb-every", 8])],
                "thorough": [dict(WALK_T, args=WALK_T["args"] + ["--perturb-every", 4])]},
    "rule": WALK_RULE + "; for C05 every explored key is bucketed by position identity (no two identities may share a key) and every perturbed from-scratch key must differ",
    "assumptions": ["the full statement (all pairs of distinct positions) is false for any 64-bit key by counting and is not claimed; "
                    "proved: every single-component difference changes the key, over the regenerated table"],
}

PROPS["C17"] = {
    "module": "RCE.Props.C17",
    "theorems": ["RCE.Props.C17.eval_mirror", "RCE.Props.C17.eval_swap", "RCE.Props.C17.eval_range",
                 "RCE.Props.C17.saturation_breaks_antisymmetry"],
    "streams": {"quick": [WALK_Q], "thorough": [WALK_T]},
    "rule": WALK_RULE,
    "assumptions": ["eval_swap needs per-side material <= 32767 cp (true of every reachable position; counter-example without it is a theorem)"],
}

PROPS["C02"] = {
    "module": "RCE.Props.C02",
    "theorems": ["RCE.Props.C02.unmake_make", "RCE.Props.C02.isLegalMove_pure", "RCE.Props.C02.legalMoves_pure",
                 "RCE.Props.C02.nested_make_unmake"],
    "streams": {"quick": [WALK_Q], "thorough": [WALK_T]},
    "tier_b_kinds": [],
    "rule": WALK_RULE + "; for C02 the full state dump (15 bitboards, turn, counters, ep, key, every undo record, repetition record) is compared "
            "before/after every make-unmake pair (exhaustive descents, random nested take-backs, complete unwinding of every game) and every legal-move query",
    "assumptions": ["WF (representation invariant) holds of the start position and is preserved by every generated move (both proved)"],
}

PROPS["C04"] = {
    "module": "RCE.Props.C04",
    "theorems": ["RCE.Props.C04.key_incremental", "RCE.Props.C04.scratchKey_position_only", "RCE.Props.C04.transposition_same_key",
                 "RCE.Props.C04.fromFen_key", "RCE.Props.C04.start_ok", "RCE.Props.C04.key_ok_run"],
    "streams": {"quick": [WALK_Q], "thorough": [WALK_T]},
    "rule": WALK_RULE + "; for C04 the incremental key, the from-scratch key and the key of the FEN reload of the same position are compared after every make and "
            "every unmake, and all explored keys are grouped by position identity (same identity must give the same key, across games and transpositions)",
    "assumptions": [],
}

def S(name, mode, count, maxdepth, shards=16, extra=None):
    return {"name": name, "stream": "search", "driver": "search", "shards": shards,
            "args": ["--mode", mode, "--count", count, "--maxdepth", maxdepth] + (extra or [])}

SEARCH_RULE = ("search cases = (position with its game history: 40 seed FENs + positions reached by random play incl. deliberate repetitions) x depth x "
               "(node budget | stop-at-poll k | none) x cache mode (fresh | kept from earlier searches | neutralised); each case runs the real Search::search "
               "in-process and is compared line by line with the executable Lean search model (info lines, bestmove, every cache insert with node counter / flag / ply, "
               "node count, seldepth, poll count, cache size and checksum) and with the property's own oracle; distinct_nontrivial = distinct case descriptors, counted by the driver")

PROPS["C14"] = {
    "module": "RCE.Props.C14",
    "theorems": ["RCE.Props.C14.info_depths", "RCE.Props.C14.depth_limit_complete", "RCE.Props.C14.pv_legal"],
    "streams": {"quick": [S("search-plain", "plain", 48, 3), S("search-budget", "budget", 16, 2, extra=["--step", 5])],
                "thorough": [S("search-plain", "plain", 400, 4), S("search-budget", "budget", 64, 3, extra=["--step", 11]), S("search-keep", "keep", 200, 4)]},
    "eval_key": "cases", "distinct_key": "distinct_cases",
    "rule": SEARCH_RULE + "; for C14: every info line is checked against the UCI token grammar, depths must be 1,2,3,... in order, every PV is replayed move by move "
            "on the rules spec, and an unlimited depth-N search must report all N depths",
    "assumptions": ["pv_legal assumes KeyMoves (positions with equal 64-bit keys generate the same moves) and that the initial cache holds generated moves",
                    "time / nps tokens are clock dependent: checked for syntax on the real binary's output, not modelled"],
}
