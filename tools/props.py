"""Registry: per property, the theorem module + theorems that form the proof gate, and the
correspondence streams of each tier.  Extended as theorems land."""

WALK_Q = {"name": "walk", "stream": "walk", "driver": "walk", "shards": 16,
          "args": ["--games", 160, "--plies", 100, "--dfs", 2, "--corpus", "corpus/walk.txt"]}
WALK_T = {"name": "walk", "stream": "walk", "driver": "walk", "shards": 16,
          "args": ["--games", 3000, "--plies", 160, "--dfs", 3, "--corpus", "corpus/walk.txt"]}
FEN_Q = {"name": "fen", "stream": "fen", "driver": "walk", "shards": 8, "args": ["--count", 4000]}
FEN_T = {"name": "fen", "stream": "fen", "driver": "walk", "shards": 16, "args": ["--count", 100000]}

PROPS = {}

PROPS["C06"] = {
    "module": "RCE.Props.C06",
    "theorems": [
        "RCE.Props.C06.knight_attacks_exact",
        "RCE.Props.C06.king_attacks_exact",
        "RCE.Props.C06.pawn_attacks_exact",
    ],
    "streams": {
        "quick": [{"name": "tables-relevant", "stream": "tables", "driver": "tables", "args": ["--mode", "relevant", "--count", 20000]}],
        "thorough": [{"name": "tables-lines", "stream": "tables", "driver": "tables", "args": ["--mode", "lines", "--count", 400000]},
                     {"name": "tables-relevant", "stream": "tables", "driver": "tables", "args": ["--mode", "relevant", "--count", 1000]}],
    },
    "eval_key": "slider_lookups",
    "distinct_key": "slider_lookups",
    "exhaustive": {"quick": True, "thorough": True},
    "rule": "every ray (512), every leaper entry (knight, king, pawn x2 colours, 64 squares), every (square, subset of the relevant-occupancy mask) "
            "slider lookup (107,648; thorough: every subset of the full lines, ~1.1M) through Kind::get_attacks, plus random full-board occupancies through "
            "Rook/Bishop::get_attacks_wrapper and Queen::get_attacks; each is compared with the Lean model (tables recomputed from the regenerated constants) and "
            "with the coordinate-stepping spec; every enumerated case is distinct by construction",
    "assumptions": ["popcnt/tzcnt/lzcnt intrinsics behave as their mathematical definitions (modelled, compared on every lookup)"],
}
