#!/usr/bin/env python3
"""Translator: the pure bit-arithmetic initialisers of /repo's Rust source -> RCE/Gen/Translated.lean.

What is translated (expression by expression, from the source text as it is now):
  Knight::init_attacks, King::init_attacks, Pawn::init_attacks (both colours, with the loop range),
  init_rays (all eight directions), Bitboard::shift_east / shift_west (the loop body, iterated n times),
  Bitboard::trim_edges, Rook::init_masks, Bishop::init_masks.
Every Rust operator is given the meaning its `impl` in src/board/bitboard.rs has NOW (the impl bodies are
checked against the shapes this translator knows: `Bitboard << u32` = checked_shl(..).unwrap_or(0),
`Bitboard >> usize` = plain `>>`, `&`/`|`/`^`/`!` bitwise); arithmetic that Rust checks for overflow in a debug
build (`u64` `+ - *`, shifts of a `u64` by 64 or more, `u8` subtraction) produces a side condition, collected in
`<name>OK`, which the Lean side proves true for all 64 squares.

The Lean theorems in RCE/Proofs/TranslatedChk.lean prove (kernel: `decide +kernel`) that the translated definitions
equal the hand-written model on every square, so the C06 theorems hold of definitions regenerated from the
source.  When a function no longer has a shape this translator understands, that function is marked
`<name>Avail := false` (never an alarm by itself: the exhaustive table stream still ties the model to the code);
the reason is printed and recorded in the evidence.

Only rewritten when the text changes, so an unchanged source leaves the Lean build cache valid."""
import re, sys, os, json

REPO = os.environ.get("RCE_REPO", "/repo")
HERE = os.path.dirname(os.path.abspath(__file__))
OUT = os.path.normpath(os.path.join(HERE, "..", "lean", "RCE", "Gen", "Translated.lean"))
STATUS = os.path.normpath(os.path.join(HERE, "..", "work", "translate_status.json"))


class Unsupported(Exception):
    pass


def read(rel):
    with open(os.path.join(REPO, rel)) as f:
        return f.read()


def strip_comments(s):
    s = re.sub(r"//[^\n]*", "", s)
    s = re.sub(r"/\*.*?\*/", "", s, flags=re.S)
    return s


# ------------------------------------------------------------------------------------------------ tokenizer / parser
TOK = re.compile(r"\s*(?:(0x[0-9a-fA-F_]+|0b[01_]+|\d[\d_]*)(u8|u16|u32|u64|usize|i16|i32)?|([A-Za-z_][A-Za-z0-9_]*)|(::|<<|>>|\.\.|[()\[\],.&|^!+\-*/%]))")


def tokenize(s):
    out, i = [], 0
    s = s.strip()
    while i < len(s):
        m = TOK.match(s, i)
        if not m or m.end() == i:
            raise Unsupported(f"cannot tokenize at: {s[i:i+30]!r}")
        if m.group(1) is not None:
            out.append(("int", int(m.group(1).replace("_", ""), 0), m.group(2)))
        elif m.group(3) is not None:
            out.append(("id", m.group(3)))
        else:
            out.append(("op", m.group(4)))
        i = m.end()
    return out


class Parser:
    # Rust precedence, loosest first: | ^ & (<< >>) (+ -) (* / %) as unary postfix
    LEVELS = [["|"], ["^"], ["&"], ["<<", ">>"], ["+", "-"], ["*", "/", "%"]]

    def __init__(self, toks):
        self.t, self.i = toks, 0

    def peek(self):
        return self.t[self.i] if self.i < len(self.t) else ("eof",)

    def eat(self, kind=None, val=None):
        tk = self.peek()
        if (kind and tk[0] != kind) or (val is not None and tk[1] != val):
            raise Unsupported(f"expected {kind} {val}, got {tk}")
        self.i += 1
        return tk

    def parse(self):
        e = self.binary(0)
        if self.peek()[0] != "eof":
            raise Unsupported(f"trailing tokens from {self.peek()}")
        return e

    def binary(self, lvl):
        if lvl == len(self.LEVELS):
            return self.cast()
        e = self.binary(lvl + 1)
        while self.peek()[0] == "op" and self.peek()[1] in self.LEVELS[lvl]:
            op = self.eat()[1]
            r = self.binary(lvl + 1)
            e = ("bin", op, e, r)
        return e

    def cast(self):
        e = self.unary()
        while self.peek() == ("id", "as"):
            self.eat()
            ty = self.eat("id")[1]
            e = ("as", e, ty)
        return e

    def unary(self):
        if self.peek() == ("op", "!"):
            self.eat()
            return ("not", self.unary())
        return self.postfix()

    def postfix(self):
        e = self.primary()
        while True:
            tk = self.peek()
            if tk == ("op", "."):
                self.eat()
                name = self.eat("id")[1]
                if self.peek() == ("op", "("):
                    e = ("method", e, name, self.args())
                else:
                    e = ("field", e, name)
            elif tk == ("op", "["):
                self.eat()
                ix = self.binary(0)
                self.eat("op", "]")
                e = ("index", e, ix)
            else:
                return e

    def args(self):
        self.eat("op", "(")
        a = []
        while self.peek() != ("op", ")"):
            a.append(self.binary(0))
            if self.peek() == ("op", ","):
                self.eat()
        self.eat("op", ")")
        return a

    def primary(self):
        tk = self.peek()
        if tk[0] == "int":
            self.eat()
            return ("lit", tk[1], tk[2])
        if tk == ("op", "("):
            self.eat()
            e = self.binary(0)
            self.eat("op", ")")
            return e
        if tk[0] == "id":
            path = [self.eat()[1]]
            while self.peek() == ("op", "::"):
                self.eat()
                path.append(self.eat("id")[1])
            if self.peek() == ("op", "("):
                return ("call", path, self.args())
            return ("path", path)
        raise Unsupported(f"unexpected token {tk}")


def parse_expr(text):
    return Parser(tokenize(text)).parse()


# ------------------------------------------------------------------------------------------------ typing / emission
WIDTH = {"u8": 8, "u16": 16, "u32": 32, "usize": 64}


class Ctx:
    """variables: name -> (lean_expr, type); types: 'BB', 'U64', ('N', width), ('SQ', lean_idx_expr)"""

    def __init__(self, consts, vars_):
        self.consts = consts          # {'File': {...}, 'Rank': {...}, 'Direction': {...}, 'Color': {...}}
        self.vars = vars_
        self.conds = []
        self.rays_fn = None

    def cond(self, c):
        m = re.fullmatch(r"decide \((\d+) (<|≤) (\d+)\)", c)
        if m:   # both sides literal: decided here
            a, b = int(m.group(1)), int(m.group(3))
            if (a < b) if m.group(2) == "<" else (a <= b):
                return
            raise Unsupported(f"constant arithmetic overflows: {c}")
        if c not in self.conds:
            self.conds.append(c)


def is_n(t):
    return isinstance(t, tuple) and t[0] == "N"


def hexlit(v):
    return "(0x%016x : UInt64)" % v


def tr(e, want, cx):
    """returns (lean, type).  `want` is the type a bare literal should take (None = unknown)."""
    k = e[0]
    if k == "lit":
        v, suf = e[1], e[2]
        if suf == "u64" or (suf is None and want in ("U64", "BB")):
            if v >= 2 ** 64:
                raise Unsupported("literal too large")
            return hexlit(v), "U64"
        if suf in WIDTH:
            return str(v), ("N", WIDTH[suf])
        if suf is None and is_n(want):
            return str(v), want
        if suf is None and want is None:
            return str(v), ("LIT", v)
        raise Unsupported(f"literal {v}{suf or ''} in context {want}")
    if k == "path":
        p = e[1]
        if len(p) == 1:
            if p[0] in cx.vars:
                return cx.vars[p[0]]
            raise Unsupported(f"unknown variable {p[0]}")
        raise Unsupported(f"bare path {'::'.join(p)}")
    if k == "as":
        inner, ty = e[1], e[2]
        if inner[0] == "path" and len(inner[1]) == 2 and inner[1][0] in cx.consts:
            enum, name = inner[1]
            if name not in cx.consts[enum]:
                raise Unsupported(f"{enum}::{name} unknown")
            v = cx.consts[enum][name]
            if ty == "u64":
                return hexlit(v), "U64"
            if ty in WIDTH:
                return str(v), ("N", WIDTH[ty])
            raise Unsupported(f"cast of enum to {ty}")
        le, t = tr(inner, None, cx)
        if ty in WIDTH:
            if is_n(t):
                if WIDTH[ty] < t[1]:
                    cx.cond(f"decide ({le} < {2 ** WIDTH[ty]})")
                return le, ("N", WIDTH[ty])
            if t[0] == "LIT":
                return le, ("N", WIDTH[ty])
            raise Unsupported(f"cast {t} as {ty}")
        if ty == "u64":
            if t == "U64":
                return le, "U64"
            if is_n(t):
                return f"({le}).toUInt64", "U64"
        raise Unsupported(f"cast {t} as {ty}")
    if k == "not":
        le, t = tr(e[1], want, cx)
        if t in ("BB", "U64"):
            return f"(~~~{le})", t
        raise Unsupported(f"! on {t}")
    if k == "call":
        p, a = e[1], e[2]
        if p == ["Bitboard", "new"] and len(a) == 1:
            le, t = tr(a[0], "U64", cx)
            if t != "U64":
                raise Unsupported(f"Bitboard::new of {t}")
            return le, "BB"
        if len(p) == 2 and p[1] == "from" and p[0] in WIDTH and len(a) == 1:
            le, t = tr(a[0], None, cx)
            if is_n(t) and t[1] <= WIDTH[p[0]]:
                return le, ("N", WIDTH[p[0]])
            raise Unsupported(f"{p[0]}::from of {t}")
        if p == ["Square", "from"] and len(a) == 1:
            le, t = tr(a[0], None, cx)
            if is_n(t) and t[1] == 8:
                return le, ("SQ", le)
            raise Unsupported(f"Square::from of {t}")
        raise Unsupported(f"call {'::'.join(p)}")
    if k == "field":
        le, t = tr(e[1], None, cx)
        if isinstance(t, tuple) and t[0] == "SQ":
            if e[2] == "file":
                return f"({t[1]} % 8)", ("N", 8)
            if e[2] == "rank":
                return f"({t[1]} >>> 3)", ("N", 8)
        raise Unsupported(f"field {e[2]} of {t}")
    if k == "method":
        recv, name, a = e[1], e[2], e[3]
        le, t = tr(recv, want, cx)
        if t == "BB" and name in ("shift_east", "shift_west") and len(a) == 1:
            la, ta = tr(a[0], ("N", 8), cx)
            if not (is_n(ta) and ta[1] == 8):
                raise Unsupported(f"{name} argument of type {ta}")
            return f"({'shiftEast' if name == 'shift_east' else 'shiftWest'} {le} {la})", "BB"
        if t == "BB" and name == "trim_edges" and not a:
            return f"(trimEdges {le})", "BB"
        raise Unsupported(f"method {name} on {t}")
    if k == "index":
        # rays[i as usize][Direction::X as usize]
        if e[1][0] == "index" and e[1][1] == ("path", ["rays"]) and cx.rays_fn:
            li, ti = tr(e[1][2], None, cx)
            ld, td = tr(e[2], None, cx)
            if is_n(ti) and is_n(td):
                return f"({cx.rays_fn} {li} {ld})", "BB"
        raise Unsupported("index expression")
    if k == "bin":
        op, l, r = e[1], e[2], e[3]
        if op in ("<<", ">>"):
            ll, tl = tr(l, want if want in ("U64",) else None, cx)
            lr, t_r = tr(r, ("N", 32), cx)
            if t_r[0] == "LIT":
                t_r = ("N", 32)
            if not is_n(t_r):
                raise Unsupported(f"shift amount of type {t_r}")
            if tl[0] == "LIT":
                raise Unsupported("shift of an untyped literal")
            if tl == "BB":
                if op == "<<":
                    return f"(shlChecked {ll} {lr})", "BB"       # impl Shl<u32>: checked_shl(..).unwrap_or(0)
                cx.cond(f"decide ({lr} < 64)")
                return f"(shr {ll} {lr})", "BB"                  # impl Shr<usize>: plain >>
            if tl == "U64":
                cx.cond(f"decide ({lr} < 64)")
                return (f"(shl {ll} {lr})" if op == "<<" else f"(shr {ll} {lr})"), "U64"
            raise Unsupported(f"shift of {tl}")
        # non-shift: type the non-literal side first
        if l[0] == "lit" and l[2] is None and want is None:
            lr, t_r = tr(r, None, cx)
            ll, tl = tr(l, t_r if t_r != "BB" else "U64", cx)
        else:
            ll, tl = tr(l, want, cx)
            lr, t_r = tr(r, tl if tl != "BB" else "U64", cx)
            if tl[0] == "LIT":
                ll, tl = tr(l, t_r if t_r != "BB" else "U64", cx)
        if t_r[0] == "LIT":
            lr, t_r = tr(r, tl if tl != "BB" else "U64", cx)
        lean_op = {"&": "&&&", "|": "|||", "^": "^^^"}.get(op)
        if lean_op:
            if tl in ("BB", "U64") and t_r in ("BB", "U64"):
                if tl == "U64" and t_r == "BB":
                    raise Unsupported("u64 op Bitboard")
                return f"({ll} {lean_op} {lr})", ("BB" if tl == "BB" else "U64")
            if is_n(tl) and is_n(t_r):
                return f"({ll} {lean_op} {lr})", ("N", max(tl[1], t_r[1]))
            raise Unsupported(f"{tl} {op} {t_r}")
        if op in ("+", "-", "*"):
            if is_n(tl) and is_n(t_r):
                w = max(tl[1], t_r[1])
                if op == "-":
                    cx.cond(f"decide ({lr} ≤ {ll})")
                else:
                    cx.cond(f"decide ({ll} {op} {lr} < {2 ** w})")
                return f"({ll} {op} {lr})", ("N", w)
            if tl == "U64" and t_r == "U64":
                if op == "-":
                    cx.cond(f"decide (({lr}).toNat ≤ ({ll}).toNat)")
                else:
                    cx.cond(f"decide (({ll}).toNat {op} ({lr}).toNat < 18446744073709551616)")
                return f"({ll} {op} {lr})", "U64"
            raise Unsupported(f"{tl} {op} {t_r}")
        raise Unsupported(f"operator {op}")
    raise Unsupported(f"node {k}")


# ------------------------------------------------------------------------------------------------ source shapes
def enum_consts(src, enum, explicit):
    m = re.search(r"pub enum " + enum + r"\s*\{(.*?)\}", strip_comments(src), re.S)
    if not m:
        raise Unsupported(f"enum {enum}")
    body = re.sub(r"#\[[^\]]*\]", "", m.group(1))
    out, nxt = {}, 0
    for item in [x.strip() for x in body.split(",") if x.strip()]:
        mm = re.fullmatch(r"(\w+)(?:\s*=\s*([0-9a-fA-Fx_]+))?", item)
        if not mm:
            raise Unsupported(f"enum {enum} item {item!r}")
        if mm.group(2):
            nxt = int(mm.group(2).replace("_", ""), 0)
        elif explicit:
            raise Unsupported(f"enum {enum}::{mm.group(1)} has no value")
        out[mm.group(1)] = nxt
        nxt += 1
    return out


def norm(s):
    return re.sub(r"\s+", "", s)


def check_bitboard_impls(bb):
    """the operator meanings this translator assumes must be the ones the source defines"""
    s = norm(strip_comments(bb))
    need = [
        ("macro arm (type, trait)", "fn$fn(self,rhs:$type)->Self::Output{Self($trait::$fn(self.0,rhs))}"),
        ("macro arm (trait)", "fn$fn(self,rhs:Self)->Self::Output{Self($trait::$fn(self.0,rhs.0))}"),
        ("operators on Bitboard", "bitboard_operator!{BitAnd,bitand;BitOr,bitor;BitXor,bitxor;}"),
        ("operators with u64 / usize", "bitboard_operator!{u64,BitAnd,bitand;u64,BitOr,bitor;u64,BitXor,bitxor;usize,Shr,shr;}"),
        ("Shl<u32>", "implShl<u32>forBitboard{typeOutput=Self;fnshl(self,rhs:u32)->Self::Output{Self(self.0.checked_shl(rhs).unwrap_or(0))}}"),
        ("Not", "implNotforBitboard{typeOutput=Self;fnnot(self)->Self::Output{Self(!self.0)}}"),
        ("Bitboard::new", "pubconstfnnew(value:u64)->Self{Self(value)}"),
        ("struct", "pubstructBitboard(u64);"),
    ]
    for what, pat in need:
        if pat not in s:
            raise Unsupported(f"bitboard.rs: {what} does not have the known shape")


def fn_body(src, header_re):
    """text between the braces of the first fn whose header matches"""
    m = re.search(header_re, src)
    if not m:
        raise Unsupported(f"function not found: {header_re}")
    i = src.index("{", m.end() - 1) if src[m.end() - 1] != "{" else m.end() - 1
    depth, j = 0, i
    while j < len(src):
        if src[j] == "{":
            depth += 1
        elif src[j] == "}":
            depth -= 1
            if depth == 0:
                return src[i + 1:j]
        j += 1
    raise Unsupported("unbalanced braces")


def non_test(src):
    i = src.find("#[cfg(test)]")
    return strip_comments(src if i < 0 else src[:i])


def okdef(name, params, cx):
    body = " && ".join(cx.conds) if cx.conds else "true"
    return f"def {name}OK {params} : Bool := {body}\n"


class Gen:
    def __init__(self):
        self.out = []
        self.status = {}

    def unavailable(self, name, sig, dummy, why):
        self.status[name] = {"available": False, "reason": str(why)}
        self.out.append(f"-- {name}: NOT TRANSLATED ({why})\n")
        self.out.append(f"def {name}Avail : Bool := false\n")
        self.out.append(f"def {name} {sig} := {dummy}\n")
        self.out.append(f"def {name}OK {sig.rsplit(':', 1)[0].strip()} : Bool := true\n")

    def available(self, name, text):
        self.status[name] = {"available": True}
        self.out.append(f"def {name}Avail : Bool := true\n")
        self.out.append(text)


def generate():
    g = Gen()
    out = g.out
    out.append("import RCE.Model.Bits\n")
    out.append("/-! GENERATED by tools/gen_translate.py from /repo's source on every run. Do not edit. -/\n")
    out.append("namespace RCE.Gen.Tr\nopen RCE\n")
    try:
        bb = read("src/board/bitboard.rs")
        check_bitboard_impls(bb)
        piece = read("src/board/piece.rs")
        sq = read("src/board/square.rs")
        consts = {
            "File": enum_consts(bb, "File", True),
            "Rank": enum_consts(bb, "Rank", True),
            "Direction": enum_consts(sq, "Direction", False),
            "Color": enum_consts(piece, "Color", False),
        }
        if norm("fn from(value: u8) -> Self { let file: u8 = value % 8; let rank: u8 = value >> 3; Self { rank, file } }") not in norm(non_test(sq)):
            raise Unsupported("square.rs: Square::from(u8) does not have the known shape")
        base_ok = None
    except (Unsupported, OSError) as e:
        consts, base_ok = {}, e

    bbs = non_test(bb) if base_ok is None else ""

    # ---- Bitboard::shift_east / shift_west / trim_edges
    helpers_ok = base_ok
    for name, lean in (("shift_east", "shiftEast"), ("shift_west", "shiftWest")):
        try:
            if base_ok is not None:
                raise Unsupported(base_ok)
            body = fn_body(bbs, r"pub fn " + name + r"\(self, n: u8\) -> Self \{")
            m = re.fullmatch(r"let mut output = self; for _ in 0\.\.n \{ output = (.*?); \} output", re.sub(r"\s+", " ", body).strip())
            if not m:
                raise Unsupported(f"{name}: loop shape")
            cx = Ctx(consts, {"output": ("output", "BB")})
            le, t = tr(parse_expr(m.group(1)), "BB", cx)
            if t != "BB" or cx.conds:
                raise Unsupported(f"{name}: step has type {t} / side conditions")
            g.available(lean, f"def {lean} (output : BB) : Nat → BB\n  | 0 => output\n  | n+1 => {lean} {le} n\n")
        except Unsupported as e:
            helpers_ok = helpers_ok or e
            g.unavailable(lean, "(output : BB) (n : Nat) : BB", "output", e)
            out[-1] = ""  # no OK def for helpers
    try:
        if base_ok is not None:
            raise Unsupported(base_ok)
        body = fn_body(bbs, r"pub fn trim_edges\(self\) -> Self \{")
        cx = Ctx(consts, {"self": ("self_", "BB")})
        le, t = tr(parse_expr(body), "BB", cx)
        if t != "BB" or cx.conds:
            raise Unsupported("trim_edges: type / side conditions")
        g.available("trimEdges", f"def trimEdges (self_ : BB) : BB := {le}\n")
    except Unsupported as e:
        helpers_ok = helpers_ok or e
        g.unavailable("trimEdges", "(self_ : BB) : BB", "self_", e)
        out[-1] = ""

    # ---- leapers: `let origin = Bitboard::new(1 << idx); *attacks_at_square = EXPR;`
    for fname, lean in (("knight", "knightInit"), ("king", "kingInit")):
        try:
            if base_ok is not None:
                raise Unsupported(base_ok)
            src = non_test(read(f"src/board/piece/{fname}.rs"))
            body = re.sub(r"\s+", " ", fn_body(src, r"fn init_attacks\(\) -> \[Bitboard; 64\] \{")).strip()
            m = re.fullmatch(r"assert!\(ATTACKS\.get\(\)\.is_none\(\)\); let mut attacks = \[Bitboard::new\(0\); 64\]; "
                             r"for \(idx, attacks_at_square\) in attacks\.iter_mut\(\)\.enumerate\(\) \{ let origin = (.*?); "
                             r"\*attacks_at_square = (.*?); \} attacks", body)
            if not m:
                raise Unsupported(f"{fname}.rs: init_attacks loop shape")
            cx = Ctx(consts, {"idx": ("idx", ("N", 64))})
            lo, to = tr(parse_expr(m.group(1)), "BB", cx)
            if to != "BB":
                raise Unsupported("origin is not a Bitboard")
            cx.vars["origin"] = ("origin", "BB")
            le, t = tr(parse_expr(m.group(2)), "BB", cx)
            if t != "BB":
                raise Unsupported(f"table entry has type {t}")
            text = f"def {lean} (idx : Nat) : BB :=\n  let origin : BB := {lo}\n  {le}\n"
            text += f"def {lean}OK (idx : Nat) : Bool :=\n  let origin : BB := {lo}\n  " + (" && ".join(cx.conds) if cx.conds else "true") + " && (origin == origin)\n"
            g.available(lean, text)
        except (Unsupported, OSError) as e:
            g.unavailable(lean, "(idx : Nat) : BB", "0", e)

    # ---- pawns: `for idx in LO..HIu8 { let origin = ..; attacks[Color::X as usize][idx as usize] = EXPR; ×2 }`
    try:
        if base_ok is not None:
            raise Unsupported(base_ok)
        src = non_test(read("src/board/piece/pawn.rs"))
        body = re.sub(r"\s+", " ", fn_body(src, r"fn init_attacks\(\) -> \[\[Bitboard; 64\]; 2\] \{")).strip()
        m = re.fullmatch(r"assert!\(ATTACKS\.get\(\)\.is_none\(\)\); let mut attacks = \[\[Bitboard::new\(0\); 64\]; 2\]; "
                         r"for idx in (\d+)\.\.(\d+)u8 \{ let origin = (.*?); "
                         r"attacks\[Color::(\w+) as usize\]\[idx as usize\] = (.*?); "
                         r"attacks\[Color::(\w+) as usize\]\[idx as usize\] = (.*?); \} attacks", body)
        if not m:
            raise Unsupported("pawn.rs: init_attacks loop shape")
        lo_, hi_ = int(m.group(1)), int(m.group(2))
        cols = {m.group(4): m.group(5), m.group(6): m.group(7)}
        if set(cols) != {"White", "Black"}:
            raise Unsupported("pawn.rs: colours")
        cx = Ctx(consts, {"idx": ("idx", ("N", 8))})
        lo, to = tr(parse_expr(m.group(3)), "BB", cx)
        cx.vars["origin"] = ("origin", "BB")
        lw, tw = tr(parse_expr(cols["White"]), "BB", cx)
        lb, tb = tr(parse_expr(cols["Black"]), "BB", cx)
        if (to, tw, tb) != ("BB", "BB", "BB"):
            raise Unsupported("pawn.rs: types")
        text = (f"def pawnInit (white : Bool) (idx : Nat) : BB :=\n  let origin : BB := {lo}\n"
                f"  if {lo_} ≤ idx ∧ idx < {hi_} then (if white then {lw} else {lb}) else 0\n")
        text += "def pawnInitOK (white : Bool) (idx : Nat) : Bool :=\n" + f"  let origin : BB := {lo}\n  " + (" && ".join(cx.conds) if cx.conds else "true") + " && (origin == origin) && (white == white)\n"
        g.available("pawnInit", text)
    except (Unsupported, OSError) as e:
        g.unavailable("pawnInit", "(white : Bool) (idx : Nat) : BB", "0", e)

    # ---- rays
    rays_avail = False
    try:
        if helpers_ok is not None:
            raise Unsupported(helpers_ok)
        src = non_test(read("src/board/square/rays.rs"))
        body = re.sub(r"\s+", " ", fn_body(src, r"fn init_rays\(\) -> \[\[Bitboard; 8\]; 64\] \{")).strip()
        m = re.fullmatch(r"let mut rays = \[\[Bitboard::new\(0\); 8\]; 64\]; for \(idx, rays_at_square\) in rays\.iter_mut\(\)\.enumerate\(\) \{ (.*) \} rays", body)
        if not m:
            raise Unsupported("rays.rs: loop shape")
        stmts = [s.strip() for s in m.group(1).split(";") if s.strip()]
        cx = Ctx(consts, {"idx": ("idx", ("N", 64))})
        lets, arms = [], {}
        for st in stmts:
            ml = re.fullmatch(r"let (\w+) = (.*)", st)
            ma = re.fullmatch(r"rays_at_square\[Direction::(\w+) as usize\] = (.*)", st)
            if ml:
                le, t = tr(parse_expr(ml.group(2)), None, cx)
                cx.vars[ml.group(1)] = (le, t) if isinstance(t, tuple) and t[0] == "SQ" else (ml.group(1), t)
                if not (isinstance(t, tuple) and t[0] == "SQ"):
                    lets.append(f"let {ml.group(1)} := {le}")
            elif ma:
                d = ma.group(1)
                if d not in consts["Direction"] or consts["Direction"][d] in arms:
                    raise Unsupported(f"rays.rs: direction {d}")
                le, t = tr(parse_expr(ma.group(2)), "BB", cx)
                if t != "BB":
                    raise Unsupported(f"rays.rs: {d} has type {t}")
                arms[consts["Direction"][d]] = le
            else:
                raise Unsupported(f"rays.rs: statement {st[:40]!r}")
        if sorted(arms) != list(range(8)):
            raise Unsupported("rays.rs: not all eight directions assigned")
        pre = "".join(f"  {l}\n" for l in lets)
        text = "def rayInit (idx dir : Nat) : BB :=\n" + pre + "  match dir with\n" + "".join(f"  | {d} => {arms[d]}\n" for d in range(8)) + "  | _ => 0\n"
        text += "def rayInitOK (idx dir : Nat) : Bool :=\n" + pre + "  " + (" && ".join(cx.conds) if cx.conds else "true") + " && (dir == dir)\n"
        g.available("rayInit", text)
        rays_avail = True
    except (Unsupported, OSError) as e:
        g.unavailable("rayInit", "(idx dir : Nat) : BB", "0", e)

    # ---- slider masks
    for fname, lean in (("rook", "rookMaskInit"), ("bishop", "bishopMaskInit")):
        try:
            if not rays_avail:
                raise Unsupported("rays not translated")
            src = non_test(read(f"src/board/piece/{fname}.rs"))
            body = re.sub(r"\s+", " ", fn_body(src, r"fn init_masks\(\) -> \[Bitboard; 64\] \{")).strip()
            m = re.fullmatch(r"assert!\(MASKS\.get\(\)\.is_none\(\)\); let mut masks: \[Bitboard; 64\] = \[Bitboard::new\(0\); 64\]; "
                             r"let rays = RAYS\.get_or_init\(crate::board::square::rays::Rays::new\)\.rays; "
                             r"for i in 0\.\.64u8 \{ let mask: Bitboard = (.*?); masks\[i as usize\] = mask; \} masks", body)
            if not m:
                raise Unsupported(f"{fname}.rs: init_masks loop shape")
            cx = Ctx(consts, {"i": ("i", ("N", 8))})
            cx.rays_fn = "rayInit"
            le, t = tr(parse_expr(m.group(1)), "BB", cx)
            if t != "BB" or cx.conds:
                raise Unsupported(f"{fname}.rs: mask type / side conditions")
            g.available(lean, f"def {lean} (i : Nat) : BB := {le}\ndef {lean}OK (i : Nat) : Bool := (i == i)\n")
        except (Unsupported, OSError) as e:
            g.unavailable(lean, "(i : Nat) : BB", "0", e)

    # ---- get_attacks_slow (rook, bishop): the fixed four-ray skeleton; what is read from the source is which ray guards, which ray
    #      is scanned, in which direction the scan runs (bitscan_forward / bitscan_reverse) and which ray is cut, in source order
    out.append("/-- one `if !(ray & blockers).is_empty() { let i = (ray' & blockers).bitscan_X(); attacks &= !rays[i][dir]; }` block -/\n"
               "def cutTr (a : BB) (sq gd sd cd : Nat) (fwd : Bool) (bl : BB) : BB :=\n"
               "  if (rayInit sq gd &&& bl) != 0 then a &&& ~~~(rayInit (if fwd then bsf (rayInit sq sd &&& bl) else bsr (rayInit sq sd &&& bl)) cd) else a\n"
               "/-- the index handed to `rays[..]` inside that block is a square (else the Rust code would panic) -/\n"
               "def cutTrOK (sq gd sd : Nat) (fwd : Bool) (bl : BB) : Bool :=\n"
               "  if (rayInit sq gd &&& bl) != 0 then decide ((if fwd then bsf (rayInit sq sd &&& bl) else bsr (rayInit sq sd &&& bl)) < 64) else true\n")
    for fname, lean in (("rook", "rookSlow"), ("bishop", "bishopSlow")):
        try:
            if not rays_avail:
                raise Unsupported("rays not translated")
            for what, pat in (("Square::u8", "pubconstfnu8(self)->u8{self.rank*8+self.file}"),):
                if pat not in norm(non_test(sq)):
                    raise Unsupported(f"square.rs: {what} does not have the known shape")
            for what, pat in (("is_empty", "pubconstfnis_empty(self)->bool{self.0==0}"),
                              ("bitscan_forward", "pubconstfnbitscan_forward(self)->u32{unsafe{self.bitscan_forward_helper()}}"),
                              ("bitscan_forward_helper", "constunsafefnbitscan_forward_helper(self)->u32{self.0.trailing_zeros()}"),
                              ("bitscan_reverse", "pubconstfnbitscan_reverse(self)->u32{unsafe{self.bitscan_reverse_helper()}}"),
                              ("bitscan_reverse_helper", "constunsafefnbitscan_reverse_helper(self)->u32{63-self.0.leading_zeros()}")):
                if pat not in norm(bbs):
                    raise Unsupported(f"bitboard.rs: {what} does not have the known shape")
            src = non_test(read(f"src/board/piece/{fname}.rs"))
            body = re.sub(r"\s+", " ", fn_body(src, r"fn get_attacks_slow\(square: Square, blockers: Bitboard\) -> Bitboard \{")).strip()
            ray = r"let (\w+) = rays\[square\.u8\(\) as usize\]\[Direction::(\w+) as usize\]; "
            blk = (r"if !\((\w+) & blockers\)\.is_empty\(\) \{ let blocked_idx = \((\w+) & blockers\)\.(bitscan_forward|bitscan_reverse)\(\); "
                   r"attacks &= !\(rays\[blocked_idx as usize\]\[Direction::(\w+) as usize\]\); \} ")
            m = re.fullmatch(r"let rays = RAYS\.get_or_init\(crate::board::square::rays::Rays::new\)\.rays; " + ray * 4 +
                             r"let mut attacks = (\w+) \| (\w+) \| (\w+) \| (\w+); " + blk * 4 + r"attacks", body)
            if not m:
                raise Unsupported(f"{fname}.rs: get_attacks_slow does not have the four-ray skeleton")
            gs = m.groups()
            var = {}
            for k in range(4):
                if gs[2 * k + 1] not in consts["Direction"]:
                    raise Unsupported(f"{fname}.rs: direction {gs[2 * k + 1]}")
                var[gs[2 * k]] = consts["Direction"][gs[2 * k + 1]]
            if len(var) != 4:
                raise Unsupported(f"{fname}.rs: ray variables")
            union = gs[8:12]
            if any(u not in var for u in union):
                raise Unsupported(f"{fname}.rs: union of unknown variables")
            expr = " ||| ".join(f"rayInit sq {var[u]}" for u in union)
            oks = []
            for k in range(4):
                gv, sv, fn, cd = gs[12 + 4 * k: 16 + 4 * k]
                if gv not in var or sv not in var or cd not in consts["Direction"]:
                    raise Unsupported(f"{fname}.rs: block {k}")
                fwd = "true" if fn == "bitscan_forward" else "false"
                expr = f"cutTr ({expr}) sq {var[gv]} {var[sv]} {consts['Direction'][cd]} {fwd} bl"
                oks.append(f"cutTrOK sq {var[gv]} {var[sv]} {fwd} bl")
            g.available(lean, f"def {lean} (sq : Nat) (bl : BB) : BB :=\n  {expr}\ndef {lean}OK (sq : Nat) (bl : BB) : Bool :=\n  " + " && ".join(oks) + "\n")
        except (Unsupported, OSError) as e:
            g.unavailable(lean, "(sq : Nat) (bl : BB) : BB", "0", e)
    out.append("end RCE.Gen.Tr\n")
    return "\n".join(x for x in out if x), g.status


# ------------------------------------------------------------------------------------------------ evaluator
OUT_EVAL = os.path.normpath(os.path.join(HERE, "..", "lean", "RCE", "Gen", "TranslatedEval.lean"))
KNAMES = {"Pawn": "pawns", "Knight": "knights", "Bishop": "bishops", "Rook": "rooks", "Queen": "queens", "King": "king"}


def tr_i16(e, color):
    """i16 expression of the evaluator's loop body -> Lean Int expression (model primitives satAdd/satSub/wrapI16)"""
    k = e[0]
    if k == "path" and e[1] == ["score"]:
        return "score"
    if k == "path" and e[1] == ["value"]:
        return "(kv.2 : Int)"
    if k == "as" and e[2] == "i16":
        inner = e[1]
        if inner == ("method", ("path", ["board"]), "get_piece_count", [("path", ["kind"])]):
            # u32 count (at most 64) as i16: lossless
            return f"((popcount (b.bbs.get ⟨pkOfIdx kv.1, {color}⟩) : Nat) : Int)"
        raise Unsupported("evaluator: cast of something that is not the piece count")
    if k == "method" and len(e[3]) == 1 and e[2] in ("saturating_add", "saturating_sub", "wrapping_add", "wrapping_sub"):
        a, b_ = tr_i16(e[1], color), tr_i16(e[3][0], color)
        return {"saturating_add": f"(satAdd {a} {b_})", "saturating_sub": f"(satSub {a} {b_})",
                "wrapping_add": f"(wrapI16 ({a} + {b_}))", "wrapping_sub": f"(wrapI16 ({a} - {b_}))"}[e[2]]
    if k == "bin" and e[1] in ("*", "+", "-"):
        # plain i16 arithmetic: wraps in a release build (panics in a debug build)
        return f"(wrapI16 ({tr_i16(e[2], color)} {e[1]} {tr_i16(e[3], color)}))"
    raise Unsupported(f"evaluator: expression node {k}")


def generate_eval():
    head = "import RCE.Model.Eval\n/-! GENERATED by tools/gen_translate.py from /repo's source on every run. Do not edit. -/\nnamespace RCE.Gen.Tr\nopen RCE RCE.Gen\n"
    try:
        pb = norm(non_test(read("src/board/piece_bitboards.rs")))
        arms = "".join(f"Kind::{k}(Color::{c})=>self.{c.lower()}_{KNAMES[k]}.count_ones()," for c in ("White", "Black")
                       for k in ("Pawn", "Knight", "Bishop", "Rook", "Queen", "King"))
        if "pubconstfnget_piece_count(&self,kind:Kind)->u32{matchkind{" + arms + "}}" not in pb:
            raise Unsupported("piece_bitboards.rs: get_piece_count is not the plain per-kind count_ones")
        bd = norm(non_test(read("src/board.rs")))
        if "fnget_piece_count(&self,kind:Kind)->u32{self.bitboards.get_piece_count(kind)}" not in bd:
            raise Unsupported("board.rs: Board::get_piece_count does not forward to the piece boards")
        ev = non_test(read("src/evaluate/simple_evaluator.rs"))
        body = re.sub(r"\s+", " ", fn_body(ev, r"fn evaluate\(&self, board: &mut Board\) -> Score \{")).strip()
        m = re.fullmatch(r"let mut score: Score = (\d+); for \(kind, value\) in \[(.*?)\] \{ score = (.*?); \} "
                         r"for \(kind, value\) in \[(.*?)\] \{ score = (.*?); \} score", body)
        if not m:
            raise Unsupported("simple_evaluator.rs: evaluate does not have the two-loop shape")
        # the two (kind, value) lists themselves are RCE.Gen.evalLoop0 / evalLoop1 (gen_constants.py checks colour and order)
        e0 = tr_i16(parse_expr(m.group(3)), "b.turn")
        e1 = tr_i16(parse_expr(m.group(5)), "b.turn.opp")
        text = head + "def evaluateAvail : Bool := true\n"
        text += (f"def evaluate (b : Board) : Int :=\n  let score : Int := {int(m.group(1))}\n"
                 f"  let score := evalLoop0.foldl (fun score kv => {e0}) score\n"
                 f"  let score := evalLoop1.foldl (fun score kv => {e1}) score\n  score\n")
        status = {"available": True}
    except (Unsupported, OSError) as e:
        text = head + f"-- evaluate: NOT TRANSLATED ({e})\ndef evaluateAvail : Bool := false\ndef evaluate (b : Board) : Int := b.evaluate\n"
        status = {"available": False, "reason": str(e)}
    return text + "end RCE.Gen.Tr\n", status


def write_if_changed(path, text):
    os.makedirs(os.path.dirname(path), exist_ok=True)
    old = open(path).read() if os.path.exists(path) else None
    if old != text:
        with open(path, "w") as f:
            f.write(text)
        print("gen_translate: wrote", path)
    else:
        print("gen_translate: unchanged", os.path.basename(path))


def main():
    text, status = generate()
    os.makedirs(os.path.dirname(STATUS), exist_ok=True)
    write_if_changed(OUT, text)
    etext, estatus = generate_eval()
    write_if_changed(OUT_EVAL, etext)
    status["evaluate"] = estatus
    with open(STATUS, "w") as f:
        json.dump(status, f, indent=1)
    for k, v in status.items():
        if not v["available"]:
            print(f"gen_translate: {k} not translated: {v['reason']}")


if __name__ == "__main__":
    main()
