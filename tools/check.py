#!/usr/bin/env python3
"""Decides one property of /verif/properties.jsonl for /repo's current working tree.

    python3 tools/check.py C01 [--tier quick|thorough]
    python3 tools/check.py --setup
    python3 tools/check.py --replay replays/<file>.json

A check passes only if (1) the proof gate holds: the property's theorems build from the freshly
regenerated constants, with the expected axioms and no forbidden construct, and (2) the
correspondence gate holds: implementation, hand-written Lean model and independent Lean spec agree
on everything explored.  See DESIGN.md §4.
"""
import argparse, fcntl, hashlib, json, os, re, shutil, subprocess, sys, threading, time
from concurrent.futures import ThreadPoolExecutor

VERIF = os.path.normpath(os.path.join(os.path.dirname(os.path.abspath(__file__)), ".."))
REPO = os.environ.get("RCE_REPO", "/repo")
LEAN = os.path.join(VERIF, "lean")
HARNESS_DIR = os.path.join(VERIF, "harness")
HARNESS = os.path.join(HARNESS_DIR, "target", "release", "rce_harness")
DRIVER = os.path.join(LEAN, ".lake", "build", "bin", "driver")
WORK = os.path.join(VERIF, "work")
# the committed evidence describes runs against /repo itself; a run pointed at another tree (RCE_REPO=<scratch worktree with a seeded
# change>) writes its evidence next to the other scratch output instead
EVID = os.path.join(VERIF, "evidence") if os.path.realpath(REPO) == "/repo" else os.path.join(VERIF, "work", "evidence-other-tree")
REPLAYS = os.path.join(VERIF, "replays")
ALLOWED_AXIOMS = {"propext", "Classical.choice", "Quot.sound"}
FORBIDDEN = re.compile(r"\bsorry\b|\badmit\b|^\s*axiom\s|native_decide|bv_decide|implemented_by|\bunsafe\s|maxHeartbeats\s+0\b", re.M)
NCPU = min(16, os.cpu_count() or 4)
STREAM_TIMEOUT = 600
ENV = dict(os.environ, CARGO_NET_OFFLINE="true")

sys.path.insert(0, os.path.dirname(os.path.abspath(__file__)))
from props import PROPS  # noqa: E402


def log(*a):
    print(*a, file=sys.stderr, flush=True)


def run(cmd, cwd=None, timeout=None, stdin=None, env=None):
    return subprocess.run(cmd, cwd=cwd, timeout=timeout, input=stdin, env=env or ENV,
                          stdout=subprocess.PIPE, stderr=subprocess.PIPE, text=True)


class Lock:
    def __enter__(self):
        os.makedirs(WORK, exist_ok=True)
        self.f = open(os.path.join(WORK, "lock"), "w")
        fcntl.flock(self.f, fcntl.LOCK_EX)
        return self

    def __exit__(self, *a):
        fcntl.flock(self.f, fcntl.LOCK_UN)
        self.f.close()


# --------------------------------------------------------------------------------------------
# build: harness from /repo's working tree, generated constants, driver

def tree_hash():
    h = hashlib.sha256()
    roots = [os.path.join(REPO, "src"), os.path.join(REPO, "Cargo.toml"), os.path.join(HARNESS_DIR, "src", "main.rs"),
             os.path.join(HARNESS_DIR, "src", "hx"), os.path.join(HARNESS_DIR, "Cargo.toml"), os.path.join(VERIF, "tools"),
             os.path.join(LEAN, "RCE"), os.path.join(LEAN, "Driver.lean"), os.path.join(VERIF, "corpus")]
    for r in roots:
        if os.path.isfile(r):
            files = [r]
        else:
            files = []
            for d, dn, fn in os.walk(r):
                dn.sort()
                for f in sorted(fn):
                    if f.endswith((".rs", ".lean", ".py", ".toml", ".txt", ".json", ".sh")):
                        files.append(os.path.join(d, f))
        for f in files:
            h.update(f.encode())
            with open(f, "rb") as fh:
                h.update(fh.read())
    return h.hexdigest()[:20]


def build_all(need_engine=False):
    """Returns a dict of build problems (empty = fine)."""
    problems = {}
    t0 = time.time()
    r = run([os.path.join(VERIF, "tools", "link_harness.sh")])
    if r.returncode != 0:
        problems["link"] = r.stderr
    if not os.path.exists(os.path.join(HARNESS_DIR, "Cargo.lock")):
        shutil.copy(os.path.join(REPO, "Cargo.lock"), os.path.join(HARNESS_DIR, "Cargo.lock"))
    # cargo decides freshness by mtime; a source tree swapped for one with older timestamps must still be rebuilt
    if stale_since_last_build("harness"):
        os.utime(os.path.join(HARNESS_DIR, "src", "main.rs"))
    r = run(["cargo", "build", "--release", "--offline"], cwd=HARNESS_DIR, timeout=1800)
    if r.returncode != 0:
        problems["harness_build"] = r.stderr[-4000:]
        return problems
    r = run([HARNESS, "seedcheck"])
    if r.returncode != 0:
        problems["seedcheck"] = r.stdout[-2000:]
    r = run([sys.executable, os.path.join(VERIF, "tools", "gen_constants.py")])
    if r.returncode != 0:
        problems["gen_constants"] = r.stderr
    r = run([sys.executable, os.path.join(VERIF, "tools", "gen_zobrist.py")])
    if r.returncode != 0:
        problems["gen_zobrist"] = r.stderr
    # expression-level translator (bit-arithmetic initialisers -> RCE/Gen/Translated.lean); a shape it does not know is
    # recorded as "not translated", never a problem by itself
    r = run([sys.executable, os.path.join(VERIF, "tools", "gen_translate.py")])
    if r.returncode != 0:
        problems["gen_translate"] = (r.stdout + r.stderr)[-2000:]
    if problems:
        return problems
    r = run(["lake", "build", "driver"], cwd=LEAN, timeout=3600)
    if r.returncode != 0:
        problems["driver_build"] = (r.stdout + r.stderr)[-4000:]
    if need_engine:
        p = build_engine()
        if p:
            problems["engine_build"] = p
    log(f"[build] {time.time() - t0:.1f}s problems={list(problems)}")
    return problems


ENGINE_TARGET = os.path.join(VERIF, "engine-target")
ENGINE = os.path.join(ENGINE_TARGET, "release", "rust_chess_engine")


def stale_since_last_build(what):
    """True (and records the new hash) when the source tree differs from the one `what` was last built from."""
    os.makedirs(WORK, exist_ok=True)
    f = os.path.join(WORK, f"built_{what}.hash")
    h = tree_hash() + " " + REPO
    old = open(f).read() if os.path.exists(f) else ""
    if old != h:
        open(f, "w").write(h)
        return True
    return False


def build_engine():
    env = dict(ENV, RUSTFLAGS="--cfg rce_verif")
    if stale_since_last_build("engine"):
        import glob
        for d in glob.glob(os.path.join(ENGINE_TARGET, "release", ".fingerprint", "rust_chess_engine-*")):
            shutil.rmtree(d, ignore_errors=True)
    r = run(["cargo", "build", "--release", "--offline", "--target-dir", ENGINE_TARGET], cwd=REPO, timeout=1800, env=env)
    return None if r.returncode == 0 else r.stderr[-4000:]


# --------------------------------------------------------------------------------------------
# proof gate

def strip_comments(text):
    text = re.sub(r"/-.*?-/", "", text, flags=re.S)
    return re.sub(r"--[^\n]*", "", text)


def forbidden_constructs():
    hits = []
    for d, _, fn in os.walk(os.path.join(LEAN, "RCE")):
        for f in fn:
            if f.endswith(".lean"):
                p = os.path.join(d, f)
                body = strip_comments(open(p).read())
                for m in FORBIDDEN.finditer(body):
                    hits.append(f"{os.path.relpath(p, LEAN)}: {m.group(0).strip()}")
    return hits


def proof_gate(pid, spec):
    """Build the property's theorem module and audit the axioms of every listed theorem."""
    res = {"module": spec["module"], "theorems": {}, "ok": True, "errors": []}
    mod = spec["module"]
    t0 = time.time()
    r = run(["lake", "build", mod], cwd=LEAN, timeout=7200)
    res["build_s"] = round(time.time() - t0, 1)
    if r.returncode != 0:
        res["ok"] = False
        res["errors"].append("lake build " + mod + " failed: " + (r.stdout + r.stderr)[-3000:])
        # find which theorems still check: audit one by one is impossible without the module; report all as undischarged
        for t in spec["theorems"]:
            res["theorems"][t] = {"discharged": False, "axioms": None}
        return res
    audit = os.path.join(WORK, f"Audit_{pid}.lean")
    with open(audit, "w") as f:
        f.write(f"import {mod}\n")
        for t in spec["theorems"]:
            f.write(f"#print axioms {t}\n")
    r = run(["lake", "env", "lean", audit], cwd=LEAN, timeout=1800)
    out = r.stdout + r.stderr
    for t in spec["theorems"]:
        m = re.search(r"'" + re.escape(t) + r"' depends on axioms: \[(.*?)\]", out, re.S)
        m0 = re.search(r"'" + re.escape(t) + r"' does not depend on any axioms", out)
        if m or m0:
            ax = [a.strip() for a in m.group(1).replace("\n", " ").split(",")] if m else []
            bad = [a for a in ax if a not in ALLOWED_AXIOMS]
            res["theorems"][t] = {"discharged": not bad, "axioms": ax}
            if bad:
                res["ok"] = False
                res["errors"].append(f"{t} depends on non-standard axioms {bad}")
        else:
            res["theorems"][t] = {"discharged": False, "axioms": None}
            res["ok"] = False
            res["errors"].append(f"{t} not found / does not check: {out[-800:]}")
    hits = forbidden_constructs()
    if hits:
        res["ok"] = False
        res["errors"].append("forbidden constructs: " + "; ".join(hits[:10]))
    return res


# --------------------------------------------------------------------------------------------
# correspondence streams

def pipe_stream(name, harness_args, driver_mode, cache_key=None):
    """harness | driver; returns (summary dict, mismatch lines, raw tail)."""
    if cache_key:
        cp = os.path.join(WORK, "cache", cache_key + ".json")
        if os.path.exists(cp):
            return json.load(open(cp))
    h = subprocess.Popen([HARNESS] + harness_args, stdout=subprocess.PIPE, stderr=subprocess.PIPE, env=ENV)
    d = subprocess.Popen([DRIVER] + driver_mode.split(":"), stdin=h.stdout, stdout=subprocess.PIPE, stderr=subprocess.PIPE, text=True, env=ENV)
    h.stdout.close()
    timed_out = False
    # the harness's stderr is drained concurrently (an engine spinning on an error message must not block on a full pipe)
    herr_buf = []

    def _drain():
        try:
            while True:
                chunk = h.stderr.read(65536)
                if not chunk:
                    break
                if sum(len(c) for c in herr_buf) < 200000:
                    herr_buf.append(chunk)
        except Exception:
            pass
    th = threading.Thread(target=_drain, daemon=True)
    th.start()
    try:
        out, derr = d.communicate(timeout=STREAM_TIMEOUT)
    except subprocess.TimeoutExpired:
        timed_out = True
        h.kill()
        d.kill()
        out, derr = d.communicate()
    h.wait()
    th.join(timeout=5)
    herr = b"".join(herr_buf).decode(errors="replace")
    if timed_out:
        herr += "\n[stream killed after %d s: the harness did not finish]" % STREAM_TIMEOUT
    summary, mism = None, []
    for line in out.splitlines():
        if line.startswith("SUMMARY "):
            try:
                summary = json.loads(line[8:])
            except Exception:
                summary = None
        elif line.startswith("MISMATCH "):
            mism.append(line)
    res = {"name": name, "args": harness_args, "driver": driver_mode, "summary": summary, "mismatches": mism,
           "harness_rc": (h.returncode if not timed_out else -9), "driver_rc": d.returncode, "harness_err": herr[-2000:], "driver_err": derr[-2000:]}
    if cache_key and summary is not None and h.returncode == 0:
        os.makedirs(os.path.join(WORK, "cache"), exist_ok=True)
        json.dump(res, open(os.path.join(WORK, "cache", cache_key + ".json"), "w"))
    return res


def run_streams(stream_specs, seed, th):
    jobs = []
    for sp in stream_specs:
        shards = sp.get("shards", 1)
        for i in range(shards):
            args = [sp["stream"]] + [str(a) for a in sp["args"]] + ["--seed", str(seed)]
            if shards > 1:
                args += ["--shard", str(i), "--of", str(shards)]
            key = hashlib.sha256((th + " " + " ".join(args) + " " + sp["driver"]).encode()).hexdigest()[:24]
            jobs.append((sp["name"] + (f"#{i}" if shards > 1 else ""), args, sp["driver"], key))
    with ThreadPoolExecutor(max_workers=NCPU) as ex:
        futs = [ex.submit(pipe_stream, *j) for j in jobs]
        return [f.result() for f in futs]


def parse_mismatch(line):
    d = {"raw": line[:4000]}
    for k in ("class", "props", "kind", "line"):
        m = re.search(r"\b" + k + r"=(\S+)", line)
        d[k] = m.group(1) if m else ""
    m = re.search(r"root=\[(.*?)\] moves=\[(.*?)\]", line)
    if m:
        d["root"], d["moves"] = m.group(1), m.group(2)
    return d


# --------------------------------------------------------------------------------------------
# known findings

def load_known():
    p = os.path.join(VERIF, "known_findings.json")
    if os.path.exists(p):
        return json.load(open(p))
    return {"findings": [], "fixed": []}


def is_known(pid, mm, known):
    for f in known.get("findings", []):
        if f.get("property") == pid and f.get("match") and f["match"] in mm.get("raw", ""):
            return f
    return None


# --------------------------------------------------------------------------------------------

def write_replay(pid, kind, payload):
    os.makedirs(REPLAYS, exist_ok=True)
    name = f"{pid}_{kind}_{int(time.time())}.json"
    path = os.path.join(REPLAYS, name)
    json.dump(payload, open(path, "w"), indent=1)
    return os.path.relpath(path, VERIF)


def decide(pid, tier, seed):
    spec = PROPS[pid]
    t0 = time.time()
    known = load_known()
    global STREAM_TIMEOUT
    STREAM_TIMEOUT = 1200 if tier == "quick" else 10800
    with Lock():
        problems = build_all(need_engine=spec.get("need_engine", False))
        th = tree_hash()
        gate = proof_gate(pid, spec) if not problems else {"ok": False, "errors": ["build problems"], "theorems": {t: {"discharged": False, "axioms": None} for t in spec["theorems"]}, "module": spec["module"]}
    streams = []
    extra = {}
    if not problems or "harness_build" not in problems:
        if os.path.exists(HARNESS) and os.path.exists(DRIVER):
            streams = run_streams(spec["streams"][tier], seed, th)
        if spec.get("extra"):
            extra = spec["extra"](tier, seed, {"engine": ENGINE, "harness": HARNESS, "driver": DRIVER, "work": WORK, "verif": VERIF, "repo": REPO})

    import scope as scope_mod
    scope_drift = scope_mod.drift_for(pid, REPO)
    tier_b = set(spec.get("tier_b_kinds", []))
    spec_mm, model_mm, drift_mm, broken_streams = [], [], [], []
    for s in streams:
        if s["summary"] is None or s["harness_rc"] != 0:
            broken_streams.append({"name": s["name"], "harness_rc": s["harness_rc"], "driver_rc": s["driver_rc"],
                                   "harness_err": s["harness_err"][-1500:], "driver_err": s["driver_err"][-500:]})
        for line in s["mismatches"]:
            mm = parse_mismatch(line)
            mm["stream"] = s["name"]
            mm["stream_args"] = s["args"]
            mm["driver"] = s.get("driver", "")
            if pid not in mm["props"].split(","):
                continue
            if mm["class"] == "spec":
                spec_mm.append(mm)
            elif mm["kind"] in tier_b:
                drift_mm.append(mm)
            else:
                model_mm.append(mm)
    for v in extra.get("violations", []):
        v["process_level"] = True
        spec_mm.append(v)
    for v in extra.get("model_mismatches", []):
        v["process_level"] = True
        model_mm.append(v)

    violations = []   # (replay path, suffix)
    known_lines = []
    for mm in spec_mm:
        k = is_known(pid, mm, known)
        if k:
            known_lines.append(f"KNOWN-FINDING: property={pid} {k.get('what', '')}")
            continue
        violations.append((write_replay(pid, mm.get("kind", "spec"), {"property": pid, "what": "the implementation contradicts the specification on a concrete input", "mismatch": mm,
                                                                     "tier": tier, "seed": seed,
                                                                     "replay": "python3 tools/check.py --replay <this file>  (re-runs the originating stream shard, or the process-level run, against /repo's current tree and reports whether the same kind of mismatch recurs)"}), ""))
        break  # one concrete failing input is enough
    if not violations:
        reasons = []
        if problems:
            reasons.append({"broken": "build / translator", "detail": problems})
        if not gate["ok"]:
            reasons.append({"broken": "proof gate", "theorems_not_checking": [t for t, v in gate["theorems"].items() if not v["discharged"]], "errors": gate["errors"]})
        if model_mm:
            reasons.append({"broken": "correspondence (Tier A): implementation differs from the model", "first": model_mm[0]})
        if broken_streams:
            reasons.append({"broken": "correspondence stream did not complete", "streams": broken_streams})
        if scope_drift:
            reasons.append({"broken": "model scope: the source holds state that the model does not have (tools/model_scope.json), so the correspondence no longer covers the code's behaviour",
                            "state_outside_the_model": scope_drift})
        if reasons:
            violations.append((write_replay(pid, "unproved", {"property": pid, "what": "the property is no longer shown to hold; the failing-input search over every explored input found no input on which the implementation contradicts the specification",
                                                              "no_longer_checks": reasons, "tier": tier, "seed": seed,
                                                              "replay": "python3 tools/check.py --replay <this file>  (re-runs the property's check at the recorded tier)"}), " no-failing-input-found"))

    # evidence
    obligations = len(spec["theorems"]) + len(spec["streams"][tier]) + (1 if spec.get("extra") else 0) + 1
    discharged = sum(1 for v in gate["theorems"].values() if v["discharged"]) + (0 if scope_drift else 1)
    for sp in spec["streams"][tier]:
        ss = [s for s in streams if s["name"].split("#")[0] == sp["name"]]
        ok = ss and all(s["summary"] is not None and s["harness_rc"] == 0 for s in ss) and not any(
            pid in parse_mismatch(l)["props"].split(",") and (parse_mismatch(l)["class"] == "spec" or parse_mismatch(l)["kind"] not in tier_b)
            for s in ss for l in s["mismatches"])
        discharged += 1 if ok else 0
    if spec.get("extra"):
        discharged += 1 if not extra.get("violations") and not extra.get("model_mismatches") and extra.get("ok", True) else 0
    agg = {}
    samples = []
    for s in streams:
        if s["summary"]:
            for k, v in s["summary"].items():
                if isinstance(v, int):
                    agg[k] = agg.get(k, 0) + v
                elif k == "samples":
                    samples += v[:1]
    cov = {
        "obligations": obligations,
        "discharged": discharged,
        "checker_cmd": f"cd lean && lake build {spec['module']} && lake env lean ../work/Audit_{pid}.lean  (axioms audited per theorem); then harness | driver streams: " + ", ".join(sp["name"] for sp in spec["streams"][tier]),
        "trusted_base": spec.get("trusted_base", []) + [
            "Lean 4.33 kernel; axioms allowed: propext, Classical.choice, Quot.sound",
            "tools/gen_constants.py + gen_zobrist.py (constants regenerated from /repo on this run)"
            + ("; tools/gen_translate.py (leaper tables, rays, shifts, slider masks translated from the Rust expressions on this run; operator meanings read from bitboard.rs)" if pid in ("C06", "C17") else ""),
            "correspondence harness (harness/src/hx, compiled against /repo/src in-process, cfg rce_verif) and Lean driver",
            "statements in lean/" + spec["module"].replace(".", "/") + ".lean and specs in lean/RCE/Spec",
        ],
        "theorems": gate["theorems"],
        "proof_build_s": gate.get("build_s"),
        "evaluations": agg.get(spec.get("eval_key", "positions"), 0) + extra.get("evaluations", 0),
        "distinct_nontrivial": agg.get(spec.get("distinct_key", "distinct_positions"), 0) + extra.get("distinct_nontrivial", 0),
        "rule": spec.get("rule", ""),
        "samples": (samples[:3] + extra.get("samples", [])[:3]) or ["(no stream produced a sample)"],
        "exhaustive": bool(spec.get("exhaustive", {}).get(tier, False)),
        "stream_totals": agg,
        "streams": [{"name": s["name"], "summary": {k: v for k, v in (s["summary"] or {}).items() if k != "samples"}} for s in streams][:40],
        "model_drift": [m["raw"][:600] for m in drift_mm[:3]],
        "model_scope": {"baseline": "tools/model_scope.json", "state_outside_the_model": scope_drift},
        "source_translation": (json.load(open(os.path.join(WORK, "translate_status.json"))) if pid in ("C06", "C17") and os.path.exists(os.path.join(WORK, "translate_status.json")) else None),
        "extra": {k: v for k, v in extra.items() if k not in ("violations", "model_mismatches", "samples")},
        "impl_vs_spec_failures": len(spec_mm),
        "impl_vs_model_disagreements": len(model_mm),
        "known_findings_seen": known_lines,
    }
    ev = {
        "property_id": pid, "tier": tier, "seed": seed, "level": "proof",
        "coverage": cov,
        "assumptions": spec.get("assumptions", []),
        "wall_s": round(time.time() - t0, 1),
        "violations": len(violations),
    }
    os.makedirs(EVID, exist_ok=True)
    json.dump(ev, open(os.path.join(EVID, f"{pid}.json"), "w"), indent=1)
    for l in sorted(set(known_lines)):
        print(l)
    if drift_mm:
        print(f"note: model_drift recorded ({len(drift_mm)} Tier-B trace differences), property observables agree")
    for path, suffix in violations:
        print(f"VIOLATION property={pid} replay={path}{suffix}")
    if violations:
        return 1
    print(f"OK property={pid} tier={tier} theorems={discharged}/{obligations} obligations, {cov['evaluations']} evaluations, {ev['wall_s']}s")
    return 0


def main():
    ap = argparse.ArgumentParser()
    ap.add_argument("prop", nargs="?")
    ap.add_argument("--tier", default=os.environ.get("VERIF_TIER", "quick"))
    ap.add_argument("--setup", action="store_true")
    ap.add_argument("--replay")
    ap.add_argument("--replay-walk")
    a = ap.parse_args()
    seed = int(os.environ.get("VERIF_SEED", "1") or 1)
    os.chdir(VERIF)
    if a.setup:
        with Lock():
            p = build_all(need_engine=True)
            if p:
                print(json.dumps(p, indent=1))
                return 1
            mods = sorted({s["module"] for s in PROPS.values()})
            r = run(["lake", "build"] + mods, cwd=LEAN, timeout=14400)
            sys.stderr.write((r.stdout + r.stderr)[-3000:])
            return r.returncode
    if a.replay:
        j = json.load(open(a.replay))
        mm = j.get("mismatch") or {}
        pid = j.get("property", "")
        if pid in PROPS and mm.get("stream_args"):
            # the originating shard, deterministic in its arguments (seed included)
            with Lock():
                build_all()
            r = pipe_stream("replay", mm["stream_args"], mm.get("driver") or "walk")
            same = [l for l in r["mismatches"] if parse_mismatch(l)["kind"] == mm.get("kind")]
            print("\n".join(same[:5]) or "the recorded kind of mismatch does not recur on the current tree")
            if same:
                print(f"VIOLATION property={pid} replay={a.replay}")
            return 1 if same else 0
        if pid in PROPS and mm.get("process_level"):
            spec = PROPS[pid]
            with Lock():
                build_all(need_engine=True)
            ex = spec["extra"](j.get("tier", "quick"), j.get("seed", seed), {"engine": ENGINE, "harness": HARNESS, "driver": DRIVER, "work": WORK, "verif": VERIF, "repo": REPO})
            same = [v for v in ex.get("violations", []) + ex.get("model_mismatches", []) if v.get("kind") == mm.get("kind")]
            print("\n".join(v.get("raw", "")[:600] for v in same[:5]) or "the recorded kind of violation does not recur on the current tree")
            if same:
                print(f"VIOLATION property={pid} replay={a.replay}")
            return 1 if same else 0
        if pid in PROPS and not mm.get("root"):
            return decide(pid, j.get("tier", "quick"), j.get("seed", seed))
    if a.replay_walk or a.replay:
        text = a.replay_walk
        if a.replay:
            j = json.load(open(a.replay))
            mm = j.get("mismatch", {})
            text = f"{mm.get('root', '')} moves {mm.get('moves', '')}"
        with Lock():
            build_all()
        os.makedirs(WORK, exist_ok=True)
        cp = os.path.join(WORK, "replay_corpus.txt")
        open(cp, "w").write(text.strip() + "\n")
        r = pipe_stream("replay", ["walk", "--games", "0", "--dfs-seeds", "0", "--corpus", cp], "walk")
        print("\n".join(r["mismatches"]) or "no mismatch on replay")
        print(json.dumps(r["summary"]))
        return 1 if r["mismatches"] else 0
    if a.prop not in PROPS:
        print("unknown property", a.prop)
        return 2
    return decide(a.prop, a.tier if a.tier in ("quick", "thorough") else "quick", seed)


if __name__ == "__main__":
    sys.exit(main())
