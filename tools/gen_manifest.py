#!/usr/bin/env python3
"""Writes MANIFEST.json from the registry in props.py (claimed properties) and properties.jsonl."""
import json, os, sys
HERE = os.path.dirname(os.path.abspath(__file__))
sys.path.insert(0, HERE)
from props import PROPS
from manifest_texts import TEXTS, PENDING_REASON

VERIF = os.path.normpath(os.path.join(HERE, ".."))
ids = [json.loads(l)["id"] for l in open(os.path.join(VERIF, "properties.jsonl"))]
hooks_commits = ["ddefcbe", "3cde7fd", "539adb5", "57b2b04", "a3f79a8", "9639cbb", "9b62803", "8b3b9ad"]
m = {
    "version": 1,
    "setup_cmd": "python3 tools/check.py --setup",
    "hooks": {
        "guard": "rce_verif",
        "enable": "RUSTFLAGS='--cfg rce_verif' (harness/.cargo/config.toml; tools/check.py sets it for the engine binary)",
        "baseline_off_cmd": "cd /repo && cargo test --workspace --no-fail-fast --offline",
        "source_commits": hooks_commits,
        "add_only": True,
    },
    "engines": [
        {"name": "lean-proof+correspondence", "path": "tools/check.py", "serves_properties": sorted(PROPS),
         "kind_free_text": "Lean 4 theorems about a hand-written model (lean/RCE), constants regenerated from /repo on every run, "
                           "model tied to the code by a differential correspondence check (Rust harness compiled against /repo/src in-process | Lean driver)"}
    ],
    "checks": [],
    "not_applicable": [],
    "notes": "Every check: python3 tools/check.py <id> [--tier thorough]. Known findings / fixed defects: known_findings.json. Seeded breakages: seeded/.",
}
for pid in ids:
    if pid in PROPS:
        t = TEXTS[pid]
        m["checks"].append({
            "property_id": pid,
            "quick_cmd": f"python3 tools/check.py {pid} --tier quick",
            "thorough_cmd": f"python3 tools/check.py {pid} --tier thorough",
            "evidence_file": f"evidence/{pid}.json",
            "replay_cmd_template": "python3 tools/check.py --replay {path}",
            "engine": "lean-proof+correspondence",
            "level_claimed": {"category": "proof", "text": t["level"], "design_ref": t.get("design_ref", "DESIGN.md §6 " + pid)},
            "level_note": t["note"],
            "technique": t["technique"],
        })
    else:
        m["not_applicable"].append({"property_id": pid, "reason": PENDING_REASON.get(pid, "not claimed yet: its check is still under construction in this round (the technique applies; see DESIGN.md §6)")})
json.dump(m, open(os.path.join(VERIF, "MANIFEST.json"), "w"), indent=1)
print("MANIFEST.json:", len(m["checks"]), "checks,", len(m["not_applicable"]), "not claimed")
