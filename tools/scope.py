#!/usr/bin/env python3
"""Model scope: the inventory of STATE in /repo/src that the hand-written Lean model stands for.

The correspondence check vouches for the code only as far as the code's behaviour is a function of the state the
model has: the fields of the modelled structs and the process-wide cells (the position cache, the key table, the attack
tables, the ordering table, the running flag).  State that is not in the model — a new `static` / `thread_local!` cell
with interior mutability, a new field in a struct — is behaviour the model cannot exhibit, whatever the streams happen
to explore (a memo keyed by 44 bits of the position key disagrees with the model once in 2^32 queries).  This module
lists that state from the current source and compares it with the committed baseline (tools/model_scope.json, written
when the model was last validated against the source).  Additions are reported; the affected properties are then "no
longer shown to hold" unless the failing-input search finds a concrete input, exactly like a theorem that stopped
checking.  Removals and renames of existing items are not reported here (the streams see those).

  python3 tools/scope.py            print the drift of /repo against the baseline
  python3 tools/scope.py --write    rewrite the baseline from /repo (only after re-validating the model)
"""
import json, os, re, sys

VERIF = os.path.dirname(os.path.dirname(os.path.abspath(__file__)))
BASELINE = os.path.join(VERIF, "tools", "model_scope.json")

# which properties rest on the state of which source files
FILE_PROPS = [
    (r"^src/board/piece/", ["C01", "C06"]),
    (r"^src/board/square", ["C01", "C06"]),
    (r"^src/board/zkey\.rs$", ["C04", "C05"]),
    (r"^src/board/(serialize|boardbuilder)\.rs$", ["C07", "C08"]),
    (r"^src/board/transposition_table\.rs$", ["C11", "C12", "C13", "C14", "C16"]),
    (r"^src/board", ["C01", "C02", "C03", "C04"]),
    (r"^src/evaluate", ["C17", "C16"]),
    (r"^src/search", ["C09", "C11", "C12", "C13", "C14", "C16"]),
    (r"^src/uci", ["C08", "C09", "C10", "C15"]),
    (r"^src/(bench|main)\.rs$", ["C16"]),
]

# write-once wrappers (`OnceLock`, `LazyLock`, …) around plain data are tables, not state; they count only when the wrapped type
# is itself mutable (`OnceLock<Mutex<…>>`)
MUTABLE = r"\b(Atomic\w+|Mutex|RwLock|RefCell|Cell|UnsafeCell|Condvar)\b"


def props_of(path):
    for pat, props in FILE_PROPS:
        if re.search(pat, path):
            return props
    return []


def strip(src):
    """comments and string / char literals blanked, the test module (at the end of the file) cut off"""
    out, i, n = [], 0, len(src)
    while i < n:
        c = src[i]
        if src.startswith("//", i):
            j = src.find("\n", i)
            i = n if j < 0 else j
        elif src.startswith("/*", i):
            depth, i = 1, i + 2
            while i < n and depth:
                if src.startswith("/*", i):
                    depth, i = depth + 1, i + 2
                elif src.startswith("*/", i):
                    depth, i = depth - 1, i + 2
                else:
                    i += 1
        elif c == '"':
            i += 1
            while i < n and src[i] != '"':
                i += 2 if src[i] == "\\" else 1
            i += 1
            out.append('""')
        elif c == "r" and re.match(r'r#*"', src[i:]):
            m = re.match(r'r(#*)"', src[i:])
            end = src.find('"' + m.group(1), i + len(m.group(0)))
            i = n if end < 0 else end + 1 + len(m.group(1))
            out.append('""')
        elif c == "'" and re.match(r"'(\\.[^']*|[^'\\])'", src[i:]):
            m = re.match(r"'(\\.[^']*|[^'\\])'", src[i:])
            i += len(m.group(0))
            out.append("' '")
        else:
            out.append(c)
            i += 1
    s = "".join(out)
    m = re.search(r"#\[cfg\(test\)\]\s*(pub\s+)?mod\s+\w+\s*\{", s)
    if m:
        s = s[: m.start()]
    return s


def block_after(s, start):
    """the text of the brace / parenthesis block that opens at or after `start`"""
    i = start
    while i < len(s) and s[i] not in "{(;":
        i += 1
    if i >= len(s) or s[i] == ";":
        return ""
    open_c = s[i]
    close_c = "}" if open_c == "{" else ")"
    depth, j = 0, i
    while j < len(s):
        if s[j] == open_c:
            depth += 1
        elif s[j] == close_c:
            depth -= 1
            if depth == 0:
                return s[i + 1: j]
        j += 1
    return s[i + 1:]


def split_top(body):
    """split a field list on top-level commas"""
    parts, depth, cur = [], 0, []
    for c in body:
        if c in "<([{":
            depth += 1
        elif c in ">)]}":
            depth -= 1
        if c == "," and depth <= 0:
            parts.append("".join(cur))
            cur = []
            depth = 0
        else:
            cur.append(c)
    parts.append("".join(cur))
    return [p.strip() for p in parts if p.strip()]


def norm(t):
    return re.sub(r"\s+", " ", t).strip()


def inventory_of(src):
    s = strip(src)
    cells, fields = [], {}
    # process-wide and per-thread cells (also those declared inside functions)
    for m in re.finditer(r"\bstatic\s+(mut\s+)?(\w+)\s*:\s*([^=;]+?)\s*(=|;)", s):
        ty = norm(m.group(3))
        if m.group(1) or re.search(MUTABLE, ty):
            cells.append(f"static {m.group(2)}: {ty}")
    for m in re.finditer(r"\b(thread_local|lazy_static)\s*!", s):
        body = block_after(s, m.end())
        for d in re.finditer(r"\bstatic\s+(ref\s+)?(\w+)\s*:\s*([^=;]+?)\s*=", body):
            item = f"{m.group(1)} {d.group(2)}: {norm(d.group(3))}"
            cells = [c for c in cells if not c.startswith(f"static {d.group(2)}:")] + [item]
    # the fields of every struct and the payload of every enum variant is too fine; structs only
    for m in re.finditer(r"\bstruct\s+(\w+)\s*(<[^>{(;]*>)?\s*(\(|\{|;)", s):
        name = m.group(1)
        if m.group(3) == ";":
            fields[name] = []
            continue
        body = block_after(s, m.end() - 1)
        fl = []
        for p in split_top(body):
            p = re.sub(r"#\[[^\]]*\]\s*", "", p)
            p = re.sub(r"^pub(\([^)]*\))?\s+", "", p)
            fl.append(norm(p))
        fields[name] = fl
    return {"cells": sorted(set(cells)), "structs": fields}


def inventory(repo):
    inv = {}
    root = os.path.join(repo, "src")
    for d, _, fs in os.walk(root):
        for f in sorted(fs):
            if not f.endswith(".rs") or f == "verif.rs":
                continue
            path = os.path.join(d, f)
            rel = os.path.relpath(path, repo)
            if rel == "src/testing_utils.rs":
                continue
            try:
                inv[rel] = inventory_of(open(path, encoding="utf-8", errors="replace").read())
            except Exception as e:  # a file the scanner cannot read is itself outside the scope
                inv[rel] = {"cells": [f"unreadable: {e}"], "structs": {}}
    return inv


def field_name(f):
    return f.split(":")[0].strip()


def field_type(f):
    return f.split(":", 1)[1].strip() if ":" in f else ""


def drift(repo):
    """state present in the source and absent from the baseline: [{file, item, props}]"""
    base = json.load(open(BASELINE))["files"] if os.path.exists(BASELINE) else {}
    out = []
    for rel, inv in sorted(inventory(repo).items()):
        b = base.get(rel, {"cells": [], "structs": {}})
        new_file = rel not in base
        bc = {c.split(":")[0] for c in b["cells"]}
        cur = {c.split(":")[0] for c in inv["cells"]}
        gone_cells = [field_type(c) for c in b["cells"] if c.split(":")[0] not in cur]
        for c in inv["cells"]:
            if c.split(":")[0] not in bc:
                if field_type(c) in gone_cells:      # renamed, same type
                    gone_cells.remove(field_type(c))
                    continue
                out.append({"file": rel, "item": c, "props": props_of(rel)})
        for sname, fl in inv["structs"].items():
            bf = b["structs"].get(sname)
            if bf is None:
                # a new struct is new state only if something holds it; its fields are reported when a known struct gains a field
                # of that type, or when it sits in a new cell — both reported above / below
                if new_file and fl:
                    continue
                continue
            names = {field_name(x) for x in bf}
            if len(fl) and all(":" not in x for x in fl):       # tuple struct: compare by arity
                if len(fl) > len(bf):
                    out.append({"file": rel, "item": f"struct {sname}: tuple field added ({fl})", "props": props_of(rel)})
                continue
            # a field that merely changed its name (another field of the same type disappeared) is not new state
            gone_types = [field_type(x) for x in bf if field_name(x) not in {field_name(y) for y in fl}]
            for x in fl:
                if field_name(x) not in names:
                    if field_type(x) in gone_types:
                        gone_types.remove(field_type(x))
                        continue
                    out.append({"file": rel, "item": f"struct {sname}: field {x}", "props": props_of(rel)})
    return out


def drift_for(pid, repo):
    return [d for d in drift(repo) if pid in d["props"]]


def main():
    repo = os.environ.get("RCE_REPO", "/repo")
    if "--write" in sys.argv:
        json.dump({"note": "state of /repo/src the Lean model stands for; rewritten only after the model was re-validated against the source (tools/scope.py --write)",
                   "files": inventory(repo)}, open(BASELINE, "w"), indent=1, sort_keys=True)
        print("baseline written:", BASELINE)
        return
    d = drift(repo)
    for x in d:
        print(f"{x['file']}: {x['item']}  -> {','.join(x['props'])}")
    print(f"{len(d)} item(s) of state outside the model's scope")


if __name__ == "__main__":
    main()
